//! C03 — shard count is unobservable: N shards answer exactly like one shard, whichever
//! internal path (generic / fast / pooled / batch) touches a key.
use crate::c01::{canon_score, kind, kind as kind_of, parse_argv, EPOCH_MS};
use crate::common::*;
use crate::gen::{self, Argv};
use crate::myresp::{self, Tree};
use bytes::Bytes;
use rand::seq::SliceRandom as _;
use rand::Rng as _;
use redis_sim::io::TimeSource;
use redis_sim::production::{ShardConfig, ShardedActorState};
use serde_json::{json, Value};
use std::collections::BTreeMap;
use std::sync::atomic::{AtomicU64, Ordering};
use std::sync::Arc;

#[derive(Clone)]
pub struct ManualTime(pub Arc<AtomicU64>);
impl TimeSource for ManualTime {
    fn now_millis(&self) -> u64 {
        self.0.load(Ordering::SeqCst)
    }
}

pub type State = ShardedActorState<ManualTime>;

pub fn new_state(shards: usize) -> (State, ManualTime) {
    new_state_via(shards, false)
}

/// `perf`: build the state the way the real server does, from a PerformanceConfig (all defaults)
pub fn new_state_via(shards: usize, perf: bool) -> (State, ManualTime) {
    new_state_cfg(shards, perf, false)
}

/// `adaptive`: ShardConfig::with_adaptive() - the hot-key detector and the load balancer run beside the shards
pub fn new_state_cfg(shards: usize, perf: bool, adaptive: bool) -> (State, ManualTime) {
    let t = ManualTime(Arc::new(AtomicU64::new(EPOCH_MS as u64)));
    let scfg = |n: usize| if adaptive { ShardConfig::with_shards(n).with_adaptive() } else { ShardConfig::with_shards(n) };
    let s = if perf {
        let pc: redis_sim::production::PerformanceConfig = serde_json::from_str("{}").expect("default perf config");
        ShardedActorState::with_perf_config_and_time_source(&pc, scfg(shards), t.clone())
    } else {
        ShardedActorState::with_config_and_time_source(scfg(shards), t.clone())
    };
    (s, t)
}

#[derive(Clone, Debug, PartialEq, Eq)]
pub enum Path {
    Generic,
    Fast,
    Pooled,
    Batch,
}

#[derive(Clone, Debug)]
pub enum Op {
    Cmd(Argv, Path),
    Advance(i64),
    ScanWalk(Option<Vec<u8>>),
    /// a pipeline batch of plain GETs / SETs through the batch entry points
    BatchGet(Vec<Vec<u8>>),
    BatchSet(Vec<(Vec<u8>, Vec<u8>)>),
    /// scripting: kind in {eval, load, evalsha, flush, exists}, script index, key, argument
    Script(String, usize, Vec<u8>, Vec<u8>),
}

const SCRIPTS: [&str; 5] = [
    "return redis.call('GET', KEYS[1])",
    "return redis.call('INCR', KEYS[1])",
    "redis.call('SET', KEYS[1], ARGV[1]); return redis.call('GET', KEYS[1])",
    // scripts that leak a global (a forgotten `local`): every run starts from a fresh interpreter, so whichever shard runs it
    // the answer is that of a first run
    "visits = (visits or 0) + 1; redis.call('SET', KEYS[1], visits); return visits",
    "if memo == nil then memo = {} end; memo[#memo + 1] = ARGV[1]; return #memo",
];

fn b(s: &str) -> Vec<u8> {
    s.as_bytes().to_vec()
}

pub async fn run_cmd(st: &State, a: &Argv, path: &Path) -> Tree {
    let plain_get = a.len() == 2 && a[0].eq_ignore_ascii_case(b"GET");
    let plain_set = a.len() == 3 && a[0].eq_ignore_ascii_case(b"SET");
    match path {
        Path::Fast if plain_get => myresp::from_resp(&st.fast_get(Bytes::copy_from_slice(&a[1])).await),
        Path::Fast if plain_set => myresp::from_resp(&st.fast_set(Bytes::copy_from_slice(&a[1]), Bytes::copy_from_slice(&a[2])).await),
        Path::Pooled if plain_get => myresp::from_resp(&st.pooled_fast_get(Bytes::copy_from_slice(&a[1])).await),
        Path::Pooled if plain_set => myresp::from_resp(&st.pooled_fast_set(Bytes::copy_from_slice(&a[1]), Bytes::copy_from_slice(&a[2])).await),
        Path::Batch if plain_get => {
            let r = st.fast_batch_get_pipeline(vec![Bytes::copy_from_slice(&a[1])]).await;
            r.first().map(myresp::from_resp).unwrap_or(Tree::Error(b("no batch reply")))
        }
        Path::Batch if plain_set => {
            let r = st.fast_batch_set_pipeline(vec![(Bytes::copy_from_slice(&a[1]), Bytes::copy_from_slice(&a[2]))]).await;
            r.first().map(myresp::from_resp).unwrap_or(Tree::Error(b("no batch reply")))
        }
        _ => match parse_argv(a) {
            Err(e) => Tree::Error(format!("ERR {}", e).into_bytes()),
            Ok(cmd) => myresp::from_resp(&st.execute(&cmd).await),
        },
    }
}

fn bulks(t: &Tree) -> Option<Vec<Vec<u8>>> {
    match t {
        Tree::Arr(Some(v)) => v
            .iter()
            .map(|x| match x {
                Tree::Bulk(Some(b)) => Some(b.clone()),
                _ => None,
            })
            .collect(),
        _ => None,
    }
}

fn av(parts: &[&[u8]]) -> Argv {
    parts.iter().map(|p| p.to_vec()).collect()
}

pub type Snapshot = BTreeMap<Vec<u8>, (String, Vec<Vec<u8>>, i64)>;

pub async fn snapshot(st: &State) -> Snapshot {
    let g = Path::Generic;
    let mut keys = bulks(&run_cmd(st, &av(&[b"KEYS", b"*"]), &g).await).unwrap_or_default();
    keys.sort();
    let mut out = Snapshot::new();
    for k in keys {
        let ty = match run_cmd(st, &av(&[b"TYPE", &k]), &g).await {
            Tree::Simple(s) => String::from_utf8_lossy(&s).to_string(),
            o => format!("{:?}", o),
        };
        let val: Vec<Vec<u8>> = match ty.as_str() {
            "string" => match run_cmd(st, &av(&[b"GET", &k]), &g).await {
                Tree::Bulk(Some(b)) => vec![b],
                o => vec![format!("{:?}", o).into_bytes()],
            },
            "list" => bulks(&run_cmd(st, &av(&[b"LRANGE", &k, b"0", b"-1"]), &g).await).unwrap_or_default(),
            "set" => {
                let mut v = bulks(&run_cmd(st, &av(&[b"SMEMBERS", &k]), &g).await).unwrap_or_default();
                v.sort();
                v
            }
            "hash" => {
                let v = bulks(&run_cmd(st, &av(&[b"HGETALL", &k]), &g).await).unwrap_or_default();
                let mut p: Vec<(Vec<u8>, Vec<u8>)> = v.chunks(2).filter(|c| c.len() == 2).map(|c| (c[0].clone(), c[1].clone())).collect();
                p.sort();
                p.into_iter().flat_map(|(f, v)| vec![f, v]).collect()
            }
            "zset" => {
                let v = bulks(&run_cmd(st, &av(&[b"ZRANGE", &k, b"0", b"-1", b"WITHSCORES"]), &g).await).unwrap_or_default();
                v.chunks(2).filter(|c| c.len() == 2).flat_map(|c| vec![c[0].clone(), canon_score(&c[1])]).collect()
            }
            _ => vec![format!("<type {}>", ty).into_bytes()],
        };
        let pttl = match run_cmd(st, &av(&[b"PTTL", &k]), &g).await {
            Tree::Int(n) => n,
            _ => i64::MIN,
        };
        // a key listed twice by KEYS (two homes) is itself a finding: keep the marker
        if out.contains_key(&k) {
            out.insert([k.clone(), b"#dup".to_vec()].concat(), (ty.clone(), val.clone(), pttl));
        }
        out.insert(k, (ty, val, pttl));
    }
    out
}

async fn scan_walk(st: &State, pattern: &Option<Vec<u8>>) -> Tree {
    let mut cursor = b("0");
    let mut seen: Vec<Vec<u8>> = vec![];
    for _ in 0..200 {
        let mut a = vec![b("SCAN"), cursor.clone(), b("COUNT"), b("3")];
        if let Some(p) = pattern {
            a.push(b("MATCH"));
            a.push(p.clone());
        }
        match run_cmd(st, &a, &Path::Generic).await {
            Tree::Arr(Some(v)) if v.len() == 2 => {
                if let Some(ks) = bulks(&v[1]) {
                    seen.extend(ks);
                }
                match &v[0] {
                    Tree::Bulk(Some(c)) => {
                        cursor = c.clone();
                        if c == b"0" {
                            break;
                        }
                    }
                    _ => return Tree::Error(b("bad cursor")),
                }
            }
            o => return o,
        }
    }
    seen.sort();
    seen.dedup();
    Tree::Arr(Some(seen.into_iter().map(|k| Tree::Bulk(Some(k))).collect()))
}

fn unordered(name: &str) -> bool {
    matches!(name, "KEYS" | "SMEMBERS" | "HGETALL" | "HKEYS" | "HVALS")
}

fn normalise(name: &str, t: Tree) -> Tree {
    match (name, t) {
        ("HGETALL", Tree::Arr(Some(v))) => {
            let mut p: Vec<Tree> = v.chunks(2).map(|c| Tree::Arr(Some(c.to_vec()))).collect();
            p.sort_by_key(|x| format!("{:?}", x));
            Tree::Arr(Some(p))
        }
        ("HSCAN" | "ZSCAN", Tree::Arr(Some(v))) if v.len() == 2 => {
            // [cursor, [field, value, ...]]: the page is a set of pairs
            let page = match &v[1] {
                Tree::Arr(Some(items)) => {
                    let mut p: Vec<Tree> = items.chunks(2).map(|c| Tree::Arr(Some(c.to_vec()))).collect();
                    p.sort_by_key(|x| format!("{:?}", x));
                    Tree::Arr(Some(p))
                }
                o => o.clone(),
            };
            Tree::Arr(Some(vec![v[0].clone(), page]))
        }
        (n, Tree::Arr(Some(mut v))) if unordered(n) => {
            v.sort_by_key(|x| format!("{:?}", x));
            Tree::Arr(Some(v))
        }
        (_, t) => t,
    }
}

fn op_json(o: &Op) -> Value {
    match o {
        Op::Cmd(a, p) => json!({"cmd": a.iter().map(|x| lossy(x)).collect::<Vec<_>>(), "path": format!("{:?}", p)}),
        Op::Advance(ms) => json!({"advance_ms": ms}),
        Op::ScanWalk(p) => json!({"scanwalk": p.as_ref().map(|x| lossy(x))}),
        Op::BatchGet(k) => json!({"batch_get": k.iter().map(|x| lossy(x)).collect::<Vec<_>>()}),
        Op::BatchSet(p) => json!({"batch_set": p.iter().map(|(k, v)| vec![lossy(k), lossy(v)]).collect::<Vec<_>>()}),
        Op::Script(kind, i, k, a) => json!({"script": kind, "index": i, "key": lossy(k), "arg": lossy(a)}),
    }
}

fn op_from(v: &Value) -> Op {
    if let Some(c) = v.get("cmd") {
        let a: Argv = c.as_array().unwrap().iter().map(|x| unlossy(x.as_str().unwrap())).collect();
        let p = match v["path"].as_str().unwrap_or("Generic") {
            "Fast" => Path::Fast,
            "Pooled" => Path::Pooled,
            "Batch" => Path::Batch,
            _ => Path::Generic,
        };
        Op::Cmd(a, p)
    } else if let Some(ms) = v.get("advance_ms") {
        Op::Advance(ms.as_i64().unwrap_or(0))
    } else if let Some(p) = v.get("scanwalk") {
        Op::ScanWalk(p.as_str().map(unlossy))
    } else if let Some(kind) = v.get("script") {
        Op::Script(kind.as_str().unwrap_or("eval").to_string(), v["index"].as_u64().unwrap_or(0) as usize, unlossy(v["key"].as_str().unwrap_or("")), unlossy(v["arg"].as_str().unwrap_or("")))
    } else if let Some(k) = v.get("batch_get") {
        Op::BatchGet(k.as_array().unwrap().iter().map(|x| unlossy(x.as_str().unwrap())).collect())
    } else {
        Op::BatchSet(
            v["batch_set"]
                .as_array()
                .unwrap()
                .iter()
                .map(|p| (unlossy(p[0].as_str().unwrap()), unlossy(p[1].as_str().unwrap())))
                .collect(),
        )
    }
}

struct Found {
    sig: String,
    detail: String,
    at: usize,
}

fn path_of_last_write(hist: &BTreeMap<Vec<u8>, Path>, k: &[u8]) -> String {
    hist.get(k).map(|p| format!("{:?}", p)).unwrap_or("none".into())
}

/// Both twins execute the same ops; first divergence or None.
async fn run(ops: &[Op], n: usize, mut seen: impl FnMut(&str, &Path, &str)) -> Option<Found> {
    // half of the cases (decided by the case itself) build both servers from a PerformanceConfig, as the real
    // server does; the other half from a bare ShardConfig
    let perf = (ops.len() + n) % 2 == 0;
    let (one, t1) = new_state_via(1, perf);
    // every fourth case runs the N-shard twin as an adaptive node (hot-key detection + load balancing actors): still
    // "a server configured with N shards", so it has to answer like the plain one-shard twin
    let adaptive = (ops.len() / 2 + n) % 4 == 0;
    let (many, tn) = new_state_cfg(n, perf, adaptive);
    if adaptive {
        seen("(adaptive-node)", &Path::Generic, "cfg");
    }
    let two_key = ops.iter().any(|o| match o {
        Op::Cmd(a, _) => matches!(gen::shape(a).split('+').next().unwrap_or(""), "RENAME" | "RENAMENX" | "RPOPLPUSH" | "LMOVE" | "MSETNX" | "SORT" | "EVAL" | "SMOVE" | "COPY"),
        Op::Script(k, ..) => k == "eval" || k == "evalsha",
        _ => false,
    });
    let mut last_write: BTreeMap<Vec<u8>, Path> = BTreeMap::new();
    let mut shas: BTreeMap<usize, String> = BTreeMap::new();
    for (i, op) in ops.iter().enumerate() {
        match op {
            Op::Advance(ms) => {
                t1.0.fetch_add(*ms as u64, Ordering::SeqCst);
                tn.0.fetch_add(*ms as u64, Ordering::SeqCst);
            }
            Op::ScanWalk(p) => {
                let a = scan_walk(&one, p).await;
                let bq = scan_walk(&many, p).await;
                seen("SCANWALK", &Path::Generic, &kind(&a));
                if a != bq {
                    return Some(Found { sig: "C03|SCAN-walk|keys-differ".into(), detail: format!("full SCAN walk: 1 shard {:?}, {} shards {:?}", a, n, bq), at: i });
                }
            }
            Op::Script(kind, si, key, arg) => {
                let script = SCRIPTS[*si % SCRIPTS.len()].as_bytes().to_vec();
                let sha = shas.get(si).cloned().unwrap_or_else(|| "f".repeat(40));
                let a: Argv = match kind.as_str() {
                    "eval" => vec![b("EVAL"), script, b("1"), key.clone(), arg.clone()],
                    "load" => vec![b("SCRIPT"), b("LOAD"), script],
                    "evalsha" => vec![b("EVALSHA"), sha.clone().into_bytes(), b("1"), key.clone(), arg.clone()],
                    "exists" => vec![b("SCRIPT"), b("EXISTS"), sha.clone().into_bytes()],
                    _ => vec![b("SCRIPT"), b("FLUSH")],
                };
                let r1 = run_cmd(&one, &a, &Path::Generic).await;
                let rn = run_cmd(&many, &a, &Path::Generic).await;
                seen(&format!("SCRIPT:{}", kind), &Path::Generic, &kind_of(&r1));
                if kind == "load" {
                    if let Tree::Bulk(Some(h)) = &r1 {
                        shas.insert(*si, String::from_utf8_lossy(h).to_string());
                    }
                }
                if r1 != rn {
                    return Some(Found {
                        sig: format!("C03|SCRIPT:{}|reply-differs", kind),
                        detail: format!("step {} {:?}: 1 shard {:?}, {} shards {:?}", i, a.iter().map(|x| lossy(x)).collect::<Vec<_>>(), r1, n, rn),
                        at: i,
                    });
                }
                if kind == "eval" || kind == "evalsha" {
                    last_write.insert(key.clone(), Path::Generic);
                }
            }
            Op::BatchGet(keys) => {
                let ks: Vec<Bytes> = keys.iter().map(|k| Bytes::copy_from_slice(k)).collect();
                let a: Vec<Tree> = one.fast_batch_get_pipeline(ks.clone()).await.iter().map(myresp::from_resp).collect();
                let bq: Vec<Tree> = many.fast_batch_get_pipeline(ks).await.iter().map(myresp::from_resp).collect();
                seen("BATCHGET", &Path::Batch, "arr");
                if a != bq {
                    let w = keys.iter().map(|k| path_of_last_write(&last_write, k)).collect::<Vec<_>>();
                    let wp = w.iter().find(|p| p.as_str() != "none" && p.as_str() != "Batch" && p.as_str() != "Fast" && p.as_str() != "Pooled").cloned().unwrap_or("bytes-path".into());
                    return Some(Found { sig: format!("C03|GET|path=Batch|written-via={}|reply-differs", wp), detail: format!("batch GET {:?}: 1 shard {:?}, {} shards {:?}", keys.iter().map(|k| lossy(k)).collect::<Vec<_>>(), a, n, bq), at: i });
                }
            }
            Op::BatchSet(pairs) => {
                let ps: Vec<(Bytes, Bytes)> = pairs.iter().map(|(k, v)| (Bytes::copy_from_slice(k), Bytes::copy_from_slice(v))).collect();
                let a: Vec<Tree> = one.fast_batch_set_pipeline(ps.clone()).await.iter().map(myresp::from_resp).collect();
                let bq: Vec<Tree> = many.fast_batch_set_pipeline(ps).await.iter().map(myresp::from_resp).collect();
                for (k, _) in pairs {
                    last_write.insert(k.clone(), Path::Batch);
                }
                seen("BATCHSET", &Path::Batch, "arr");
                if a != bq {
                    return Some(Found { sig: "C03|SET|path=Batch|reply-differs".into(), detail: format!("batch SET: 1 shard {:?}, {} shards {:?}", a, n, bq), at: i });
                }
            }
            Op::Cmd(a, path) => {
                let name = gen::shape(a).split('+').next().unwrap_or("").to_string();
                let r1 = normalise(&name, run_cmd(&one, a, path).await);
                let rn = normalise(&name, run_cmd(&many, a, path).await);
                seen(&name, path, &kind(&r1));
                if r1 != rn {
                    let key = a.get(1).cloned().unwrap_or_default();
                    let multi = matches!(name.as_str(), "RENAME" | "RENAMENX" | "RPOPLPUSH" | "LMOVE" | "MSETNX" | "SORT" | "EVAL" | "MSET" | "MGET" | "DEL" | "UNLINK" | "EXISTS");
                    let cls = if multi { "multi-key".to_string() } else { format!("written-via={}", path_of_last_write(&last_write, &key)) };
                    return Some(Found {
                        sig: format!("C03|{}|path={:?}|{}|reply-differs", name, path, cls),
                        detail: format!("step {} {:?} via {:?}: 1 shard {:?}, {} shards {:?}", i, a.iter().map(|x| lossy(x)).collect::<Vec<_>>(), path, r1, n, rn),
                        at: i,
                    });
                }
                // remember which path last wrote each key (for the signature of later reads)
                let writes = !parse_argv(a).map(|c| c.is_read_only()).unwrap_or(true);
                if writes && !matches!(rn, Tree::Error(_)) {
                    for k in a.iter().skip(1).take(1) {
                        last_write.insert(k.clone(), path.clone());
                    }
                }
            }
        }
        // the keyspace is compared after every step, so the first divergent command is the culprit - except in a third of
        // the cases ("sparse"): the snapshot itself sends a message to every shard (KEYS, TYPE, ..), which refreshes whatever a
        // shard only brings up to date when it is spoken to; there it is taken every 7th step and at the end only
        // (not where a command names two keys that may live on different shards: that listed divergence would be found late
        // and blamed on a bystander)
        let sparse = (ops.len() + 2 * n) % 3 == 0 && !two_key;
        if !matches!(op, Op::Advance(_)) && (!sparse || i % 7 == 6 || i + 1 == ops.len()) {
            let s1 = snapshot(&one).await;
            let sn = snapshot(&many).await;
            if s1 != sn {
                let mut facet = "keyspace".to_string();
                let mut culprit = String::new();
                for (k, v) in &s1 {
                    match sn.get(k) {
                        None => {
                            facet = format!("key-missing-with-N-shards|written-via={}", path_of_last_write(&last_write, k));
                            culprit = lossy(k);
                            break;
                        }
                        Some(w) if w != v => {
                            facet = format!("{}|written-via={}", if w.0 != v.0 { "type" } else if w.1 != v.1 { "value" } else { "ttl" }, path_of_last_write(&last_write, k));
                            culprit = lossy(k);
                            break;
                        }
                        _ => {}
                    }
                }
                if culprit.is_empty() {
                    for k in sn.keys() {
                        if !s1.contains_key(k) {
                            facet = format!("key-extra-with-N-shards|written-via={}", path_of_last_write(&last_write, &k[..k.len().min(2)]));
                            culprit = lossy(k);
                            break;
                        }
                    }
                }
                let (cname, multi) = match op {
                    Op::Cmd(a, _) => {
                        let nm = gen::shape(a).split('+').next().unwrap_or("").to_string();
                        let m = matches!(nm.as_str(), "RENAME" | "RENAMENX" | "RPOPLPUSH" | "LMOVE" | "MSETNX" | "SORT" | "EVAL");
                        (nm, m)
                    }
                    Op::BatchSet(_) => ("SET(batch)".to_string(), false),
                    Op::BatchGet(_) => ("GET(batch)".to_string(), false),
                    Op::ScanWalk(_) => ("SCAN-walk".to_string(), false),
                    Op::Script(k, _, _, _) => (format!("SCRIPT:{}", k), false),
                    Op::Advance(_) => ("advance".to_string(), false),
                };
                let sig = if multi {
                    // a command naming keys of several shards is executed on the first key's shard only
                    format!("C03|{}|multi-key|keyspace-differs", cname)
                } else {
                    format!("C03|{}|keyspace|{}", cname, facet)
                };
                return Some(Found { sig, detail: format!("after step {} ({}): key {:?}: 1 shard {:?} vs {} shards {:?}", i, cname, culprit, s1, n, sn), at: i });
            }
        }
    }
    None
}

fn gen_ops(rng: &mut Rng, len: usize) -> Vec<Op> {
    let mut ops = vec![];
    let mut now = EPOCH_MS;
    let keypool: [&str; 10] = ["k1", "k2", "k3", "k4", "{t}a", "{t}b", "user:1000", "x", "yy", "zzz"];
    for _ in 0..len {
        // a block of its own: a few keys get deadlines, the clock passes all of them, one or two shards are spoken to (or
        // none), and then the whole node is asked (DBSIZE, then a read of one of the expired keys through some path)
        if rng.gen_range(0..25) == 0 {
            let mut ks: Vec<&str> = keypool.to_vec();
            ks.shuffle(rng);
            let nk = rng.gen_range(2..6);
            for k in &ks[..nk] {
                ops.push(Op::Cmd(vec![b("SET"), b(k), b("soon-gone"), b("PX"), b(["50", "100", "999"][rng.gen_range(0..3)])], Path::Generic));
            }
            now += 1000;
            ops.push(Op::Advance(1000));
            for k in &ks[nk..nk + rng.gen_range(0..3)] {
                ops.push(Op::Cmd(if rng.gen_bool(0.5) { vec![b("GET"), b(k)] } else { vec![b("EXISTS"), b(k)] }, Path::Generic));
            }
            ops.push(Op::Cmd(vec![b("DBSIZE")], Path::Generic));
            ops.push(Op::Cmd(vec![b("GET"), b(ks[0])], [Path::Generic, Path::Fast, Path::Pooled, Path::Batch][rng.gen_range(0..4)].clone()));
            continue;
        }
        // another block of its own: a server-wide setting that governs how a key reports itself is changed, a small collection is
        // built on some key (any shard), and the key is asked about itself
        if rng.gen_range(0..40) == 0 {
            let (param, build): (&str, fn(&[u8]) -> Argv) = [
                ("hash-max-listpack-entries", (|k: &[u8]| vec![b("HSET"), k.to_vec(), b("f1"), b("1"), b("f2"), b("2"), b("f3"), b("3")]) as fn(&[u8]) -> Argv),
                ("list-max-listpack-size", |k: &[u8]| vec![b("RPUSH"), k.to_vec(), b("a"), b("b"), b("c")]),
                ("zset-max-listpack-entries", |k: &[u8]| vec![b("ZADD"), k.to_vec(), b("1"), b("a"), b("2"), b("b"), b("3"), b("c")]),
                ("set-max-listpack-entries", |k: &[u8]| vec![b("SADD"), k.to_vec(), b("a"), b("b"), b("c")]),
            ][rng.gen_range(0..4)];
            let k = b(keypool[rng.gen_range(0..keypool.len())]);
            ops.push(Op::Cmd(vec![b("CONFIG"), b("SET"), b(param), gen::pick(rng, &["1", "2", "1000"])], Path::Generic));
            ops.push(Op::Cmd(vec![b("DEL"), k.clone()], Path::Generic));
            ops.push(Op::Cmd(build(&k), Path::Generic));
            ops.push(Op::Cmd(vec![b("OBJECT"), b("ENCODING"), k], Path::Generic));
            continue;
        }
        match rng.gen_range(0..30) {
            0 | 1 => {
                let ms = gen::gen_advance(rng);
                if ms > 0 {
                    now += ms;
                    ops.push(Op::Advance(ms));
                    // deadlines may just have passed on every shard: speak to one or two shards only, then ask the whole node
                    if rng.gen_bool(0.35) {
                        for _ in 0..rng.gen_range(0..3) {
                            let k = b(keypool[rng.gen_range(0..keypool.len())]);
                            ops.push(Op::Cmd(if rng.gen_bool(0.5) { vec![b("GET"), k] } else { vec![b("EXISTS"), k] }, Path::Generic));
                        }
                        ops.push(Op::Cmd(vec![b("DBSIZE")], Path::Generic));
                    }
                }
            }
            2 => ops.push(Op::ScanWalk(if rng.gen_bool(0.5) { None } else { Some(b(["k*", "*", "{t}*", "?"][rng.gen_range(0..4)])) })),
            3 => {
                let n = if rng.gen_bool(0.2) { rng.gen_range(25..80) } else { rng.gen_range(1..5) };
                ops.push(Op::BatchGet((0..n).map(|_| b(keypool[rng.gen_range(0..keypool.len())])).collect()))
            }
            4 => {
                // mostly short batches; one in four is a deep pipeline (25-120 pairs over the 10 names, so every key is written
                // several times in one call: the last write of a key must win on any number of shards) with distinct values
                let n = if rng.gen_bool(0.25) { rng.gen_range(25..120) } else { rng.gen_range(1..5) };
                ops.push(Op::BatchSet(
                    (0..n)
                        .map(|j| (b(keypool[rng.gen_range(0..keypool.len())]), if n > 5 { format!("w{}", j).into_bytes() } else { gen::pick(rng, &["v1", "10", "", "x y"]) }))
                        .collect(),
                ))
            }
            5 if cfg!(feature = "lua") => {
                let kind = ["eval", "load", "evalsha", "evalsha", "flush", "exists"][rng.gen_range(0..6)].to_string();
                ops.push(Op::Script(kind, rng.gen_range(0..SCRIPTS.len()), b(keypool[rng.gen_range(0..keypool.len())]), gen::pick(rng, &["1", "x"])));
            }
            5..=12 => {
                // plain GET/SET through a chosen entry path
                let k = b(keypool[rng.gen_range(0..keypool.len())]);
                let path = [Path::Generic, Path::Fast, Path::Pooled, Path::Batch][rng.gen_range(0..4)].clone();
                if rng.gen_bool(0.5) {
                    ops.push(Op::Cmd(vec![b("GET"), k], path));
                } else {
                    ops.push(Op::Cmd(vec![b("SET"), k, gen::pick(rng, &["a", "10", "", "hello"])], path));
                }
            }
            13 => {
                if rng.gen_bool(0.6) {
                    ops.push(Op::Cmd(vec![b("KEYS"), gen::pick(rng, &["*", "k*", "{t}*", "k[0-9]", "[a-z]", "k\\*", "?"])], Path::Generic))
                } else {
                    // element cursors of one key: everything in one page (COUNT far above any generated collection)
                    let k = b(keypool[rng.gen_range(0..keypool.len())]);
                    let name = if rng.gen_bool(0.5) { "HSCAN" } else { "ZSCAN" };
                    ops.push(Op::Cmd(vec![b(name), k, b("0"), b("COUNT"), b("100000")], Path::Generic))
                }
            }
            14 => {
                if rng.gen_bool(0.35) {
                    ops.push(Op::Cmd(vec![b("DBSIZE")], Path::Generic))
                } else if rng.gen_bool(0.3) {
                    // what a key reports about itself may depend on server-wide settings: the same on every shard
                    ops.push(Op::Cmd(vec![b("OBJECT"), b("ENCODING"), b(keypool[rng.gen_range(0..keypool.len())])], Path::Generic))
                } else {
                    // commands without a routing key that read or write server-wide state: they must all meet the same state
                    let param = gen::pick(rng, &["maxmemory-policy", "maxmemory", "appendonly", "hash-max-listpack-entries", "list-max-listpack-size", "zset-max-listpack-entries", "set-max-listpack-entries", "hash-max-ziplist-entries"]);
                    if rng.gen_bool(0.5) {
                        ops.push(Op::Cmd(vec![b("CONFIG"), b("SET"), param, gen::pick(rng, &["allkeys-lru", "100mb", "yes", "noeviction", "0", "1", "2", "512"])], Path::Generic))
                    } else {
                        ops.push(Op::Cmd(vec![b("CONFIG"), b("GET"), param], Path::Generic))
                    }
                }
            }
            15 => {
                if rng.gen_bool(0.3) {
                    ops.push(Op::Cmd(vec![b("FLUSHALL")], Path::Generic))
                }
            }
            16 => {
                let mut a = vec![b(["MGET", "DEL", "EXISTS", "UNLINK"][rng.gen_range(0..4)])];
                for _ in 0..rng.gen_range(1..5) {
                    a.push(b(keypool[rng.gen_range(0..keypool.len())]));
                }
                ops.push(Op::Cmd(a, Path::Generic));
            }
            17 => {
                let mut a = vec![b(if rng.gen_bool(0.7) { "MSET" } else { "MSETNX" })];
                for _ in 0..rng.gen_range(1..4) {
                    a.push(b(keypool[rng.gen_range(0..keypool.len())]));
                    a.push(gen::pick(rng, &["m1", "m2", "7"]));
                }
                ops.push(Op::Cmd(a, Path::Generic));
            }
            _ => {
                // any model command, but on the wider key pool; SPOP/RANDOMKEY are excluded
                // (their choice legitimately differs between two instances)
                let mut a = gen::gen_cmd(rng, &gen::ALL_FAMILIES, now);
                let nm = gen::shape(&a);
                if nm.starts_with("SPOP") || nm.starts_with("RANDOMKEY") || a.is_empty() {
                    continue;
                }
                for x in a.iter_mut().skip(1) {
                    if x.len() == 2 && x[0] == b'k' && rng.gen_bool(0.5) {
                        *x = b(keypool[rng.gen_range(0..keypool.len())]);
                    }
                }
                ops.push(Op::Cmd(a, Path::Generic));
            }
        }
    }
    ops
}

async fn shrink(ops: &[Op], n: usize, sig: &str) -> Vec<Op> {
    let mut cur = ops.to_vec();
    if let Some(f) = run(&cur, n, |_, _, _| {}).await {
        cur.truncate(f.at + 1);
    }
    let mut i = 0;
    while i + 1 < cur.len() {
        let mut cand = cur.clone();
        cand.remove(i);
        if run(&cand, n, |_, _, _| {}).await.map(|f| f.sig == sig).unwrap_or(false) {
            cur = cand;
        } else {
            i += 1;
        }
    }
    cur
}

pub fn twin_leg(args: &Args) {
    let mut rep = Report::new("C03", "twin");
    let rt = tokio::runtime::Builder::new_current_thread().enable_all().build().unwrap();
    if let Some(p) = &args.replay {
        let w: Value = serde_json::from_str(&std::fs::read_to_string(p).expect("replay")).expect("json");
        let ops: Vec<Op> = w["witness"]["ops"].as_array().unwrap().iter().map(op_from).collect();
        let n = w["witness"]["shards"].as_u64().unwrap_or(4) as usize;
        rep.evaluations += 1;
        if let Some(f) = rt.block_on(run(&ops, n, |_, _, _| {})) {
            rep.violation(f.sig, f.detail, w["witness"].clone());
        }
        rep.finish(args);
        return;
    }
    let mut rng = args.rng(3);
    let nseq = args.get_u64("sequences", if args.thorough() { 8000 } else { 500 });
    rt.block_on(async {
        for s in 0..nseq {
            let n = [2usize, 3, 4, 16][(s % 4) as usize];
            let len = rng.gen_range(3..50);
            let ops = gen_ops(&mut rng, len);
            rep.evaluations += 1;
            rep.count(&format!("shards:{}", n));
            let mut classes = vec![];
            let f = run(&ops, n, |name, path, k| classes.push(format!("{}|{:?}|{}", name, path, k))).await;
            for c in classes {
                rep.distinct(&c);
                rep.count("ops");
            }
            if let Some(f) = f {
                if !rep.has_sig(&f.sig) {
                    let small = shrink(&ops, n, &f.sig).await;
                    let f2 = run(&small, n, |_, _, _| {}).await.unwrap_or(f);
                    rep.violation(f2.sig, f2.detail, json!({"shards": n, "ops": small.iter().map(op_json).collect::<Vec<_>>()}));
                } else {
                    rep.count("violations_raw");
                }
                rep.count("diverging_sequences");
            }
            if s < 2 {
                rep.sample(json!({"shards": n, "ops": ops.iter().take(10).map(op_json).collect::<Vec<_>>()}));
            }
        }
    });
    rep.finish(args);
}
