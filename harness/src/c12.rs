//! C12 — streaming persistence is crash-consistent at every step and loses nothing confirmed (`c12-crash`).
//! C13 — compaction never changes what recovery returns (`c13-compact`).
//!
//! Both legs drive the real `StreamingPersistence`, `Compactor`, `RecoveryManager`, `CheckpointManager` and
//! `WriteBuffer` over `PlanStore`, an instrumented implementation of the public `ObjectStore` trait that keeps the
//! objects in memory, counts and logs every I/O call, injects faults by call index (clean failure; torn put that
//! leaves a prefix and returns Err; corrupt get that returns the object with one bit flipped ONCE while the stored
//! object stays intact), reconstructs the crash image after any call (plus torn variants of a put in flight), can
//! park a put until the controller decides how it ends (a push() accepted while a flush's PUT is in flight) and can
//! gate the store operations of two tasks so that every interleaving is enumerated. The gate never waits forever: a
//! task with more than one outstanding store operation, or a wait during which no task can be scheduled, breaks the
//! gate open and the interleaving set is reported as inconclusive (never as a violation).
use crate::common::*;
use futures::FutureExt;
use parking_lot::Mutex;
use rand::seq::SliceRandom;
use rand::Rng as _;
use redis_sim::io::{ProductionTimeSource, TimeSource};
use redis_sim::redis::SDS;
use redis_sim::replication::{ConsistencyLevel, CrdtValue, LamportClock, ReplicaId, ReplicatedValue, ReplicationDelta, ShardReplicaState};
use redis_sim::streaming::{
    CheckpointConfig, CheckpointInfo, CheckpointManager, CompactionConfig, CompactionError, CompactionResult, Compactor,
    InMemoryObjectStore, ListResult, ManifestManager, ObjectMeta, ObjectStore, RecoveryManager, SimulatedClock,
    StreamingConfig, StreamingIntegration, StreamingPersistence, WriteBuffer, WriteBufferConfig,
};
use serde::{Deserialize, Serialize};
use serde_json::{json, Value};
use std::collections::{BTreeMap, BTreeSet, HashMap};
use std::future::Future;
use std::io::{Error as IoError, ErrorKind, Result as IoResult};
use std::panic::AssertUnwindSafe;
use std::pin::Pin;
use std::sync::Arc;
use std::time::Duration;

const PFX: &str = "p";
const TASKS: [&str; 3] = ["compact", "flush", "harness"];
type Objs = BTreeMap<String, Vec<u8>>;
type State = BTreeMap<String, ReplicatedValue>;
type BoxFut<'a, T> = Pin<Box<dyn Future<Output = IoResult<T>> + Send + 'a>>;

// ================================================================== PlanStore (instrumented ObjectStore)

#[derive(Clone, Debug, PartialEq, Serialize, Deserialize)]
enum Fault {
    Fail,      // the call has no effect and returns Err
    Torn(u32), // put only: the first n/1000 of the bytes become the object, the call returns Err
    CorruptGet(u32), // get only: the call returns Ok with bit (n mod 8*len) flipped; the stored object stays intact
    /// put / delete / rename only: the operation takes its full effect and the call still returns Err (the
    /// acknowledgement is lost: a timeout after the store applied the request; a rename that is copy + delete and
    /// fails in its second half looks the same for the destination)
    LostAck,
}

/// Segment framing of the system under test (header and footer sizes), used to aim bit flips at an area.
const SEG_HEADER: usize = 40;
const SEG_FOOTER: usize = 24;

#[derive(Clone, Debug)]
struct Ev {
    task: u8,
    op: &'static str,
    key: String,
    to: String,
    fault: Option<Fault>,
    data: Vec<u8>,          // put: the bytes the caller wanted to store
    written: Option<usize>, // put: how many of them reached the store
    applied: bool,          // delete / rename took effect
    len: usize,             // get: length of the object returned
}

#[derive(Default)]
struct Gate {
    prefix: Vec<u8>,
    trace: Vec<(u8, bool)>, // (task that ran, was the other task also waiting)
    waiting: [u32; 2],      // operations of each task that wait at the gate (more than one = not schedulable)
    done: [bool; 2],
    grant: Option<u8>,
    broken: Option<String>, // why the gate gave up; from then on every operation passes ungated
}

/// How long one operation may wait at the gate (in polls) before the gate declares that nothing can be scheduled;
/// the other task needs one poll to reach its next store call, so this is never reached by a schedulable pair.
const GATE_SPIN_LIMIT: u64 = 100_000;

/// A put parked until the controller releases it with an outcome.
#[derive(Default)]
struct Hold {
    parked: bool,
    release: Option<Option<Fault>>,
}

#[derive(Default)]
struct Inner {
    objs: Objs,
    base: Objs, // objects when the plan was armed (call index 0)
    log: Vec<Ev>,
    plan: BTreeMap<u64, Fault>,
    gate: Option<Gate>,
    hold: Option<Hold>,
}

#[derive(Clone)]
struct PlanStore {
    inner: Arc<Mutex<Inner>>,
    task: u8,
}

fn obj_class(key: &str) -> &'static str {
    if key.ends_with("manifest.json.tmp") {
        "manifest.tmp"
    } else if key.ends_with("manifest.json") {
        "manifest"
    } else if key.contains("/checkpoints/") {
        "checkpoint"
    } else if key.ends_with(".seg") {
        "segment"
    } else {
        "other"
    }
}

fn ev_class(e: &Ev) -> String {
    format!("{}.{}({})", TASKS[e.task as usize], e.op, obj_class(&e.key))
}

fn fault_class(e: &Ev) -> String {
    match &e.fault {
        None => "none".into(),
        Some(Fault::Fail) => format!("fail@{}", ev_class(e)),
        Some(Fault::Torn(_)) => format!("torn@{}", ev_class(e)),
        Some(Fault::CorruptGet(_)) => format!("corrupt-get@{}", ev_class(e)),
        Some(Fault::LostAck) => format!("lost-ack@{}", ev_class(e)),
    }
}

fn flip_bit(mut d: Vec<u8>, n: u32) -> Vec<u8> {
    if !d.is_empty() {
        let bit = n as usize % (d.len() * 8);
        d[bit / 8] ^= 1 << (bit % 8);
    }
    d
}

/// Which part of an object a corrupt get damages.
fn flip_area(key: &str, len: usize, n: u32) -> &'static str {
    if obj_class(key) != "segment" || len < SEG_HEADER + SEG_FOOTER {
        return obj_class(key);
    }
    match (n as usize % (len * 8)) / 8 {
        b if b < SEG_HEADER => "segment-header",
        b if b >= len - SEG_FOOTER => "segment-footer",
        _ => "segment-records",
    }
}

/// A bit number that lands in the given area of a segment of `len` bytes (anywhere for other objects).
fn bit_in(rng: &mut Rng, key: &str, len: usize, area: &str) -> u32 {
    let seg = obj_class(key) == "segment" && len > SEG_HEADER + SEG_FOOTER;
    let (lo, hi) = match area {
        "segment-header" if seg => (0, SEG_HEADER),
        "segment-records" if seg => (SEG_HEADER, len - SEG_FOOTER),
        "segment-footer" if seg => (len - SEG_FOOTER, len),
        _ => (0, len.max(1)),
    };
    (rng.gen_range(lo..hi) * 8 + rng.gen_range(0..8)) as u32
}

fn apply_ev(objs: &mut Objs, e: &Ev) {
    match e.op {
        "put" => {
            if let Some(n) = e.written {
                objs.insert(e.key.clone(), e.data[..n].to_vec());
            }
        }
        "delete" if e.applied => {
            objs.remove(&e.key);
        }
        "rename" if e.applied => {
            if let Some(d) = objs.remove(&e.key) {
                objs.insert(e.to.clone(), d);
            }
        }
        _ => {}
    }
}

impl PlanStore {
    fn from_objects(objs: Objs) -> PlanStore {
        PlanStore { inner: Arc::new(Mutex::new(Inner { objs, ..Inner::default() })), task: 2 }
    }
    fn new() -> PlanStore {
        PlanStore::from_objects(Objs::new())
    }
    fn tag(&self, task: u8) -> PlanStore {
        PlanStore { inner: self.inner.clone(), task }
    }
    /// Call index 0 is the next call; remember the objects as the base image.
    fn arm(&self, plan: BTreeMap<u64, Fault>) {
        let mut g = self.inner.lock();
        g.base = g.objs.clone();
        g.log.clear();
        g.plan = plan;
    }
    fn disarm(&self) {
        self.inner.lock().plan.clear();
    }
    fn calls(&self) -> usize {
        self.inner.lock().log.len()
    }
    fn objects(&self) -> Objs {
        self.inner.lock().objs.clone()
    }
    fn take_log(&self) -> (Objs, Vec<Ev>) {
        let mut g = self.inner.lock();
        (g.base.clone(), std::mem::take(&mut g.log))
    }
    fn set_gate(&self, prefix: Vec<u8>) {
        self.inner.lock().gate = Some(Gate { prefix, ..Gate::default() });
    }
    fn take_gate(&self) -> (Vec<(u8, bool)>, Option<String>) {
        self.inner.lock().gate.take().map(|g| (g.trace, g.broken)).unwrap_or_default()
    }
    fn break_gate(&self, why: &str) {
        if let Some(g) = self.inner.lock().gate.as_mut() {
            g.broken.get_or_insert_with(|| why.to_string());
        }
    }
    /// The next put parks (after the gate, before it is logged) until `release`.
    fn set_hold(&self) {
        self.inner.lock().hold = Some(Hold::default());
    }
    fn parked(&self) -> bool {
        self.inner.lock().hold.as_ref().map_or(false, |h| h.parked)
    }
    /// Let the parked put run; `outcome` is the fault it meets (None = it succeeds).
    fn release(&self, outcome: Option<Fault>) {
        if let Some(h) = self.inner.lock().hold.as_mut() {
            h.release = Some(outcome);
        }
    }
    fn clear_hold(&self) {
        self.inner.lock().hold = None;
    }
    async fn park(&self) {
        match self.inner.lock().hold.as_mut() {
            Some(h) if !h.parked && h.release.is_none() => h.parked = true,
            _ => return,
        }
        loop {
            {
                let mut g = self.inner.lock();
                match g.hold.as_ref().map(|h| h.release.clone()) {
                    None => return, // the controller withdrew the hold
                    Some(Some(outcome)) => {
                        g.hold = None;
                        if let Some(f) = outcome {
                            let idx = g.log.len() as u64;
                            g.plan.insert(idx, f);
                        }
                        return;
                    }
                    Some(None) => {}
                }
            }
            tokio::task::yield_now().await;
        }
    }
    fn mark_done(&self, t: usize) {
        if let Some(g) = self.inner.lock().gate.as_mut() {
            g.done[t] = true;
        }
    }
    /// Scheduling gate: a gated task (0 or 1) waits until both tasks are at a store call (or the other has
    /// finished); the controller's prefix decides who goes, after the prefix task 0 goes first. A task is expected
    /// to have at most one store operation outstanding; when it has more (join! / spawned sub-operations), or when
    /// an operation waits GATE_SPIN_LIMIT polls without anybody being schedulable, the gate is broken open: every
    /// operation passes from then on and the controller reports the set as not enumerable.
    async fn enter(&self) {
        let t = self.task as usize;
        if t > 1 {
            return;
        }
        {
            let mut g = self.inner.lock();
            let Some(gt) = g.gate.as_mut() else { return };
            if gt.broken.is_some() {
                return;
            }
            if gt.waiting[t] > 0 {
                gt.broken = Some(format!("task '{}' has more than one outstanding store operation (it issues store operations concurrently)", TASKS[t]));
                return;
            }
            gt.waiting[t] = 1;
        }
        let mut spins = 0u64;
        loop {
            {
                let mut g = self.inner.lock();
                let Some(gt) = g.gate.as_mut() else { return };
                if gt.broken.is_some() {
                    gt.waiting[t] = 0;
                    return;
                }
                if gt.grant.is_none() && (gt.waiting[1 - t] > 0 || gt.done[1 - t]) {
                    let both = gt.waiting[0] > 0 && gt.waiting[1] > 0;
                    let want = (gt.prefix.get(gt.trace.len()).copied().unwrap_or(0) as usize).min(1);
                    let pick = if gt.waiting[want] > 0 { want } else { 1 - want }; // this task waits, so `pick` does too
                    gt.grant = Some(pick as u8);
                    gt.trace.push((pick as u8, both));
                }
                if gt.grant == Some(t as u8) {
                    gt.grant = None;
                    gt.waiting[t] = 0;
                    return;
                }
                spins += 1;
                if spins > GATE_SPIN_LIMIT {
                    gt.broken = Some(format!(
                        "no task can be scheduled: an operation of task '{}' waited {} polls while task '{}' neither reached a store call nor finished (grant outstanding: {:?})",
                        TASKS[t], GATE_SPIN_LIMIT, TASKS[1 - t], gt.grant
                    ));
                    gt.waiting[t] = 0;
                    return;
                }
            }
            tokio::task::yield_now().await;
        }
    }
    /// Log a call and return the fault planned for it.
    fn begin(&self, g: &mut Inner, op: &'static str, key: &str, to: &str) -> Option<Fault> {
        // a fault kind that does not apply to the operation it lands on is a clean failure
        let f = g.plan.get(&(g.log.len() as u64)).map(|f| match (op, f) {
            ("put", Fault::Torn(_)) | ("get", Fault::CorruptGet(_)) | ("put" | "delete" | "rename", Fault::LostAck) => f.clone(),
            _ => Fault::Fail,
        });
        g.log.push(Ev { task: self.task, op, key: key.into(), to: to.into(), fault: f.clone(), data: vec![], written: None, applied: false, len: 0 });
        f
    }
}

/// The error a failing store call reports. The kind rotates over what real stores return (a refused request is as much a
/// failed call as a timeout): nothing about "the update was accepted, the call failed, the process keeps running" depends on it.
fn injected() -> IoError {
    static N: std::sync::atomic::AtomicUsize = std::sync::atomic::AtomicUsize::new(0);
    const KINDS: [ErrorKind; 8] = [ErrorKind::Other, ErrorKind::TimedOut, ErrorKind::PermissionDenied, ErrorKind::ConnectionReset, ErrorKind::InvalidInput, ErrorKind::Unsupported, ErrorKind::BrokenPipe, ErrorKind::ConnectionAborted];
    let k = KINDS[N.fetch_add(1, std::sync::atomic::Ordering::Relaxed) % KINDS.len()];
    IoError::new(k, "injected fault")
}
fn not_found(key: &str) -> IoError {
    IoError::new(ErrorKind::NotFound, format!("Key not found: {}", key))
}
fn torn_len(len: usize, permille: u32) -> usize {
    if len == 0 {
        0
    } else {
        (len * permille as usize / 1000).min(len - 1)
    }
}

impl ObjectStore for PlanStore {
    fn put<'a>(&'a self, key: &'a str, data: &'a [u8]) -> BoxFut<'a, ()> {
        Box::pin(async move {
            self.enter().await;
            self.park().await;
            let mut g = self.inner.lock();
            let f = self.begin(&mut g, "put", key, "");
            let written = match &f {
                None | Some(Fault::LostAck) => Some(data.len()),
                Some(Fault::Torn(pm)) => Some(torn_len(data.len(), *pm)),
                Some(_) => None,
            };
            if let Some(n) = written {
                g.objs.insert(key.to_string(), data[..n].to_vec());
            }
            let ev = g.log.last_mut().expect("just pushed");
            ev.data = data.to_vec();
            ev.written = written;
            if f.is_some() {
                Err(injected())
            } else {
                Ok(())
            }
        })
    }
    fn get<'a>(&'a self, key: &'a str) -> BoxFut<'a, Vec<u8>> {
        Box::pin(async move {
            self.enter().await;
            let mut g = self.inner.lock();
            let r = match self.begin(&mut g, "get", key, "") {
                None => g.objs.get(key).cloned(),
                Some(Fault::CorruptGet(n)) => g.objs.get(key).cloned().map(|d| flip_bit(d, n)),
                Some(_) => return Err(injected()),
            };
            g.log.last_mut().expect("just pushed").len = r.as_ref().map_or(0, |d| d.len());
            r.ok_or_else(|| not_found(key))
        })
    }
    fn exists<'a>(&'a self, key: &'a str) -> BoxFut<'a, bool> {
        Box::pin(async move {
            self.enter().await;
            let mut g = self.inner.lock();
            if self.begin(&mut g, "exists", key, "").is_some() {
                return Err(injected());
            }
            Ok(g.objs.contains_key(key))
        })
    }
    fn delete<'a>(&'a self, key: &'a str) -> BoxFut<'a, ()> {
        Box::pin(async move {
            self.enter().await;
            let mut g = self.inner.lock();
            let f = self.begin(&mut g, "delete", key, "");
            if matches!(f, Some(Fault::Fail)) {
                return Err(injected());
            }
            g.objs.remove(key);
            g.log.last_mut().expect("just pushed").applied = true;
            if f.is_some() {
                return Err(injected());
            }
            Ok(())
        })
    }
    fn list<'a>(&'a self, prefix: &'a str, _token: Option<&'a str>) -> BoxFut<'a, ListResult> {
        Box::pin(async move {
            self.enter().await;
            let mut g = self.inner.lock();
            if self.begin(&mut g, "list", prefix, "").is_some() {
                return Err(injected());
            }
            let objects = g
                .objs
                .iter()
                .filter(|(k, _)| k.starts_with(prefix))
                .map(|(k, v)| ObjectMeta { key: k.clone(), size_bytes: v.len() as u64, created_at_ms: 0, etag: None })
                .collect();
            Ok(ListResult { objects, continuation_token: None })
        })
    }
    fn rename<'a>(&'a self, from: &'a str, to: &'a str) -> BoxFut<'a, ()> {
        Box::pin(async move {
            self.enter().await;
            let mut g = self.inner.lock();
            let f = self.begin(&mut g, "rename", from, to);
            if matches!(f, Some(Fault::Fail)) {
                return Err(injected());
            }
            match g.objs.remove(from) {
                Some(d) => {
                    g.objs.insert(to.to_string(), d);
                    g.log.last_mut().expect("just pushed").applied = true;
                    if f.is_some() {
                        return Err(injected());
                    }
                    Ok(())
                }
                None => Err(IoError::new(ErrorKind::NotFound, format!("Source key not found: {}", from))),
            }
        })
    }
    fn head<'a>(&'a self, key: &'a str) -> BoxFut<'a, ObjectMeta> {
        Box::pin(async move {
            self.enter().await;
            let mut g = self.inner.lock();
            if self.begin(&mut g, "head", key, "").is_some() {
                return Err(injected());
            }
            g.objs
                .get(key)
                .map(|v| ObjectMeta { key: key.to_string(), size_bytes: v.len() as u64, created_at_ms: 0, etag: None })
                .ok_or_else(|| not_found(key))
        })
    }
}

/// Fault-free equivalence of PlanStore with the repo's InMemoryObjectStore on random op sequences; also checks that
/// the image rebuilt from the event log equals the live objects.
async fn validate_store(rep: &mut Report, seed: u64) {
    let fmt = |r: Result<String, IoError>| r.unwrap_or_else(|e| format!("ERR {:?}", e.kind()));
    let mut bad = 0u64;
    for s in 0..300u64 {
        let mut rng = rng_from(seed, 120_000 + s);
        let (a, b) = (PlanStore::new(), InMemoryObjectStore::new());
        a.arm(BTreeMap::new());
        for _ in 0..30 {
            let k = format!("{}/o{}", ["p", "p/segments", "q"][rng.gen_range(0..3)], rng.gen_range(0..4));
            let k2 = format!("p/o{}", rng.gen_range(0..4));
            let data: Vec<u8> = (0..rng.gen_range(0..20)).map(|_| rng.gen()).collect();
            let (x, y) = match rng.gen_range(0..7) {
                0 => (fmt(a.put(&k, &data).await.map(|_| "ok".into())), fmt(b.put(&k, &data).await.map(|_| "ok".into()))),
                1 => (fmt(a.get(&k).await.map(|d| lossy(&d))), fmt(b.get(&k).await.map(|d| lossy(&d)))),
                2 => (fmt(a.exists(&k).await.map(|e| e.to_string())), fmt(b.exists(&k).await.map(|e| e.to_string()))),
                3 => (fmt(a.delete(&k).await.map(|_| "ok".into())), fmt(b.delete(&k).await.map(|_| "ok".into()))),
                4 => {
                    let l = |r: ListResult| r.objects.iter().map(|o| format!("{}:{}", o.key, o.size_bytes)).collect::<Vec<_>>().join(",");
                    (fmt(a.list("p/", None).await.map(l)), fmt(b.list("p/", None).await.map(l)))
                }
                5 => (fmt(a.rename(&k, &k2).await.map(|_| "ok".into())), fmt(b.rename(&k, &k2).await.map(|_| "ok".into()))),
                _ => {
                    let m = |o: ObjectMeta| format!("{}:{}", o.key, o.size_bytes);
                    (fmt(a.head(&k).await.map(m)), fmt(b.head(&k).await.map(m)))
                }
            };
            rep.count("store_equiv_ops");
            if x != y {
                bad += 1;
            }
        }
        let (base, log) = a.take_log();
        let mut img = base;
        log.iter().for_each(|e| apply_ev(&mut img, e));
        if img != a.objects() {
            bad += 1;
        }
        rep.count("store_equiv_sequences");
        // a corrupt get differs from the stored object in exactly one bit, once; the object itself stays intact
        let stored = a.objects();
        if let Some((k, d)) = stored.iter().find(|(_, d)| !d.is_empty()) {
            a.arm(BTreeMap::from([(0u64, Fault::CorruptGet(rng.gen()))]));
            let (bad_read, clean_read) = (a.get(k).await.unwrap_or_default(), a.get(k).await.unwrap_or_default());
            let flipped: u32 = bad_read.iter().zip(d).map(|(x, y)| (x ^ y).count_ones()).sum();
            if bad_read.len() != d.len() || flipped != 1 || &clean_read != d || a.objects() != stored {
                bad += 1;
            }
            rep.count("store_corrupt_get_checks");
        }
    }
    if bad > 0 {
        rep.inconclusive(format!("PlanStore diverges from InMemoryObjectStore / its own event log in {} places (harness bug)", bad));
    }
}

// ================================================================== updates, projection π, recovery fold

#[derive(Clone, Debug, PartialEq, Serialize, Deserialize)]
enum UK {
    Val(String),
    Tomb,
    HSet(Vec<(String, String)>),
    HDel(String),
}

/// One replicated update: the value replica `rid` would gossip for `key` at logical time `t` (t >= 4).
#[derive(Clone, Debug, PartialEq, Serialize, Deserialize)]
struct U {
    key: String,
    rid: u64,
    t: u64,
    k: UK,
}

impl U {
    fn ty(&self) -> &'static str {
        match self.k {
            UK::Val(_) | UK::Tomb => "lww",
            _ => "hash",
        }
    }
}

/// Build the delta through the value API; `tm` maps the logical time onto the stamp scale (base, scale).
fn mk_delta(u: &U, tm: (u64, u64)) -> ReplicationDelta {
    let rid = ReplicaId(u.rid);
    let t = tm.0 + u.t * tm.1;
    let at = |back: u64| LamportClock { time: t - back, replica_id: rid };
    let v = match &u.k {
        UK::Val(s) => ReplicatedValue::with_value(SDS::from_str(s), at(0)),
        UK::Tomb => {
            let mut v = ReplicatedValue::new(rid);
            v.delete(&mut at(1));
            v
        }
        UK::HSet(fs) => {
            let mut v = ReplicatedValue::with_crdt(CrdtValue::new_hash(), rid);
            let mut c = at(fs.len() as u64);
            for (f, x) in fs {
                v.hash_set(f.clone(), SDS::from_str(x), &mut c);
            }
            v
        }
        UK::HDel(f) => {
            let mut v = ReplicatedValue::with_crdt(CrdtValue::new_hash(), rid);
            let mut c = at(2);
            v.hash_set(f.clone(), SDS::from_str("gone"), &mut c);
            v.hash_delete(f, &mut c);
            v
        }
    };
    ReplicationDelta::new(u.key.clone(), v, rid)
}

/// Observable projection of a replicated value (what a client, a peer or a digest can see).
type Pi = (String, Vec<(String, u64, u64, bool, Option<Vec<u8>>)>, Option<u64>, bool, Option<u8>, (u64, u64));

fn pi(v: &ReplicatedValue) -> Pi {
    let reg = |n: &str, l: &redis_sim::replication::LwwRegister<SDS>| {
        (n.to_string(), l.timestamp.time, l.timestamp.replica_id.0, l.tombstone, l.get().map(|s| s.as_bytes().to_vec()))
    };
    let mut a = match &v.crdt {
        CrdtValue::Lww(l) => vec![reg("", l)],
        CrdtValue::Hash(h) => h.iter().map(|(f, l)| reg(f, l)).collect(),
        _ => vec![],
    };
    a.sort();
    (v.crdt.type_name().to_string(), a, v.expiry_ms, v.vector_clock.is_some(), v.replication_factor, (v.timestamp.time, v.timestamp.replica_id.0))
}

fn show(v: Option<&ReplicatedValue>) -> Value {
    match v {
        None => json!(null),
        Some(v) => {
            let p = pi(v);
            let c: Vec<Value> = p.1.iter().map(|(n, t, r, d, b)| json!({"field": n, "time": t, "replica": r, "tombstone": d, "bytes": b.as_ref().map(|b| lossy(b))})).collect();
            json!({"kind": p.0, "content": c, "expiry": p.2, "stamp": [p.5 .0, p.5 .1]})
        }
    }
}

fn merge_into(st: &mut State, d: &ReplicationDelta) {
    let m = match st.get(&d.key) {
        Some(x) => x.merge(&d.value),
        None => d.value.clone(),
    };
    st.insert(d.key.clone(), m);
}

/// `a` already contains everything `b` says.
fn absorbs(a: Option<&ReplicatedValue>, b: &ReplicatedValue) -> bool {
    a.map_or(false, |a| pi(&a.merge(b)) == pi(a))
}

/// RecoveryManager::recover() on a store image, folded the way `apply_recovered_state` does: checkpoint values
/// first, then every delta merged in the order returned.
async fn recover_fold(objs: &Objs) -> Result<State, String> {
    let store = PlanStore::from_objects(objs.clone());
    let fut = async {
        let rm = RecoveryManager::new(store, PFX, 1);
        rm.recover().await.map_err(|e| e.to_string()).map(|r| {
            let mut st: State = r.checkpoint_state.unwrap_or_default().into_iter().collect();
            r.deltas.iter().for_each(|d| merge_into(&mut st, d));
            st
        })
    };
    match AssertUnwindSafe(fut).catch_unwind().await {
        Ok(Ok(st)) => Ok(st),
        Ok(Err(e)) => Err(panic_class(&e)),
        Err(_) => Err("panic in recover()".into()),
    }
}

#[derive(Clone)]
struct ManualTime(u64);
impl TimeSource for ManualTime {
    fn now_millis(&self) -> u64 {
        self.0
    }
}

async fn compact_with<T: TimeSource>(store: &PlanStore, cfg: CompactionConfig, ts: T) -> Result<Result<CompactionResult, CompactionError>, String> {
    let s = store.tag(0);
    let mut c = Compactor::with_time_source(Arc::new(s.clone()), PFX.into(), ManifestManager::new(s, PFX), cfg, ts);
    let r = AssertUnwindSafe(c.compact()).catch_unwind().await.map_err(|_| "panic in compact()".to_string());
    store.mark_done(0);
    r
}

fn ccfg(target: usize, min_seg: usize, max_per: usize, ttl_ms: u64) -> CompactionConfig {
    CompactionConfig { target_segment_size: target, max_segments: 2, min_segments_to_compact: min_seg, max_segments_per_compaction: max_per, tombstone_ttl: Duration::from_millis(ttl_ms), compression_enabled: false }
}

fn read_witness(path: &str) -> Value {
    let w: Value = serde_json::from_str(&std::fs::read_to_string(path).expect("replay file")).expect("json");
    w["witness"].clone()
}

fn runtime() -> tokio::runtime::Runtime {
    tokio::runtime::Builder::new_current_thread().enable_all().start_paused(true).build().expect("runtime")
}

// ================================================================== C12: crash consistency

#[derive(Clone, Debug, PartialEq, Serialize, Deserialize)]
enum Step {
    Set(String, String),
    Del(String),
    HSet(String, String, String),
    HDel(String, String),
    Flush,
    Compact,
    /// two successive writes of one key whose deltas reach the sink in the opposite order (the sink is fed from the
    /// clients' tasks after the shard actor replied, so concurrent writers of a key arrive out of stamp order)
    SetSwapped(String, String, String),
}

#[derive(Clone, Debug, Serialize, Deserialize)]
struct XCfg {
    target: usize,
    max_per: usize,
}

struct Exec {
    base: Objs,
    log: Vec<Ev>,
    rets: Vec<(usize, usize)>, // (calls made when a flush returned Ok, index into snaps)
    snaps: Vec<State>,         // join of the confirmed updates per key, one snapshot per successful flush
    findings: Vec<(String, String)>,
    end_finding: Option<(String, String)>, // reported only when nothing else explains it
    stats: BTreeMap<&'static str, u64>,
}

/// One execution of a push/flush/compact workload by a single replica (deltas from a real ShardReplicaState, so a
/// later delta of a key subsumes the earlier ones and compaction's keep-latest is value-preserving here; the
/// multi-replica cases belong to C13) with the conservation monitor pushed = flushed_ok + pending after every step.
async fn run_exec(steps: &[Step], cfg: &XCfg, plan: &BTreeMap<u64, Fault>) -> Exec {
    let store = PlanStore::new();
    let mut pers = StreamingPersistence::with_clock(Arc::new(store.tag(1)), PFX.into(), 1, WriteBufferConfig::test(), SimulatedClock::new(0)).await.expect("fault-free construction");
    store.arm(plan.clone());
    let mut shard = ShardReplicaState::new(ReplicaId(1), ConsistencyLevel::Eventual);
    let mut x = Exec { base: Objs::new(), log: vec![], rets: vec![], snaps: vec![State::new()], findings: vec![], end_finding: None, stats: BTreeMap::new() };
    let mut pushed: Vec<ReplicationDelta> = vec![];
    let mut pending: Vec<usize> = vec![];
    let mut lost: Vec<usize> = vec![];
    let mut stats: BTreeMap<&'static str, u64> = BTreeMap::new();
    let mut all: Vec<Step> = steps.to_vec();
    all.push(Step::Flush); // closing flush, after the plan has been disarmed
    let mut comp = {
        let s = store.tag(0);
        Compactor::with_time_source(Arc::new(s.clone()), PFX.into(), ManifestManager::new(s, PFX), ccfg(cfg.target, 2, cfg.max_per, 1000), ManualTime(0))
    };
    for (si, st) in all.iter().enumerate() {
        if si + 1 == all.len() {
            store.disarm();
        }
        let mut bump = |k: &'static str| *stats.entry(k).or_insert(0) += 1;
        let delta = match st {
            Step::Set(k, v) => Some(shard.record_write(k.clone(), SDS::from_str(v), None)),
            Step::Del(k) => Some(shard.record_delete(k.clone()).unwrap_or_else(|| shard.record_write(k.clone(), SDS::from_str("d"), None))),
            Step::HSet(k, f, v) => Some(shard.record_hash_write(k.clone(), vec![(f.clone(), SDS::from_str(v))])),
            Step::HDel(k, f) => Some(shard.record_hash_delete(k.clone(), vec![f.clone()]).unwrap_or_else(|| shard.record_hash_write(k.clone(), vec![(f.clone(), SDS::from_str("d"))]))),
            _ => None,
        };
        let mut site = "push";
        if let Step::SetSwapped(k, v1, v2) = st {
            let d1 = shard.record_write(k.clone(), SDS::from_str(v1), None);
            let d2 = shard.record_write(k.clone(), SDS::from_str(v2), None);
            for d in [d2, d1] {
                if pers.push(d.clone()).is_ok() {
                    pending.push(pushed.len());
                    pushed.push(d);
                    bump("pushes");
                    bump("pushes_out_of_stamp_order");
                }
            }
        } else if let Some(d) = delta {
            if pers.push(d.clone()).is_ok() {
                pending.push(pushed.len());
                pushed.push(d);
                bump("pushes");
            }
        } else if *st == Step::Flush {
            site = "StreamingPersistence::flush";
            match pers.flush().await {
                Ok(_) => {
                    bump("flush_ok");
                    if !pending.is_empty() {
                        let mut s = x.snaps.last().expect("snaps").clone();
                        pending.drain(..).for_each(|i| merge_into(&mut s, &pushed[i]));
                        x.snaps.push(s);
                        x.rets.push((store.calls(), x.snaps.len() - 1));
                    }
                }
                Err(_) => bump("flush_err"),
            }
        } else {
            site = "Compactor::compact";
            let before = store.objects();
            // one Compactor for the whole run, as in the server's compaction worker (whatever it remembers between two
            // passes - retry queues, cached manifests - is part of what a later flush and a later pass meet)
            let cres = AssertUnwindSafe(comp.compact()).catch_unwind().await.map_err(|_| "panic in compact()".to_string());
            match cres {
                Ok(Ok(r)) => {
                    bump("compact_ok");
                    if let Some(m) = before.get(&format!("{}/manifest.json", PFX)).and_then(|d| serde_json::from_slice::<redis_sim::streaming::Manifest>(d).ok()) {
                        if m.segments.iter().any(|s| s.size_bytes >= cfg.target as u64) {
                            bump("compact_ok_skipping_large_segment");
                        }
                        if m.segments.len() > r.segments_removed.len() {
                            bump("compact_ok_partial_selection");
                        }
                    }
                }
                Ok(Err(CompactionError::NothingToCompact)) => bump("compact_nothing"),
                Ok(Err(_)) => bump("compact_err"),
                Err(p) => x.findings.push((format!("C12|Compactor::compact|panic|{}", panic_class(&p)), p)),
            }
        }
        // conservation monitor: every accepted update is either confirmed by a flush that returned Ok or still pending
        let have = pers.pending_count();
        if have != pending.len() {
            let dropped = pending.len().saturating_sub(have);
            x.findings.push((
                format!("C12|{}|accepted-updates-discarded|call-returned-Err,process-keeps-running", site),
                format!("step {} ({:?}): {} accepted updates were pending, pending_count() is now {}; pushed={} confirmed={}", si, st, pending.len(), have, pushed.len(), pushed.len() - pending.len() - lost.len()),
            ));
            lost.extend(pending.drain(..dropped.min(pending.len())));
            pending.truncate(have);
        }
    }
    // end state: after a closing flush without faults every accepted update must be recoverable
    let end = recover_fold(&store.objects()).await;
    if let Ok(st) = &end {
        let gone = |i: &usize| !absorbs(st.get(&pushed[*i].key), &pushed[*i].value);
        *stats.entry("discarded_updates_unrecoverable_at_end").or_insert(0) += lost.iter().filter(|i| gone(i)).count() as u64;
        let kept: Vec<usize> = (0..pushed.len()).filter(|i| !lost.contains(i) && !pending.contains(i)).collect();
        if x.findings.is_empty() {
            if let Some(i) = kept.iter().find(|i| gone(i)) {
                x.end_finding = Some(("C12|end-state|pushed-update-unrecoverable-after-closing-flush|no-crash".into(), format!("update #{} on key {} is not in the state recovered at the end", i, pushed[*i].key)));
            }
        }
    }
    let (base, log) = store.take_log();
    x.base = base;
    x.log = log;
    x.stats = stats;
    x
}

struct Crash {
    kindpos: String, // kind of failure | crash position: what a fault-free run would show for the same defect
    sig: String,
    detail: String,
    w: Value,
    j: isize,
}

/// Per-leg bookkeeping: a failure that a fault-free run shows too is attributed to the fault-free run only.
#[derive(Default)]
struct Ctx {
    cache: HashMap<(u64, usize, u64), Option<(String, String)>>,
    ff_fail: Option<isize>,      // first failing crash index of the current base's fault-free run
    ff_kinds: BTreeSet<String>,  // kindpos of every fault-free failure
    deferred: Vec<(String, String, String, Value)>, // (kindpos, signature, detail, witness) from faulted runs
}

/// Walk every crash image of an execution from call index `from` on (earlier ones equal the fault-free run's):
/// the image after call j, and for a put at j+1 the images with a torn prefix of it. Returns the first failure.
async fn crash_images(x: &Exec, from: usize, cache: &mut HashMap<(u64, usize, u64), Option<(String, String)>>, rep: &mut Report) -> Option<Crash> {
    let snap_hash: Vec<u64> = x.snaps.iter().map(|s| h64(&s.iter().map(|(k, v)| (k.clone(), pi(v))).collect::<Vec<_>>())).collect();
    let mut img = x.base.clone();
    let mut last_fault = "none".to_string();
    // position -1 = before the first call
    for j in -1..x.log.len() as isize {
        if j >= 0 {
            let e = &x.log[j as usize];
            apply_ev(&mut img, e);
            if e.fault.is_some() {
                last_fault = fault_class(e);
            }
        }
        if (j + 1) < from as isize {
            continue;
        }
        let snap = x.rets.iter().rev().find(|r| r.0 as isize <= j + 1).map_or(0, |r| r.1);
        let mut variants: Vec<(String, Option<(String, Vec<u8>)>)> = vec![(if j < 0 { "before-first-call".into() } else { format!("after:{}", ev_class(&x.log[j as usize])) }, None)];
        if let Some(n) = x.log.get((j + 1) as usize).filter(|n| n.op == "put") {
            for cut in BTreeSet::from([0, 1.min(n.data.len()), n.data.len() / 2, n.data.len().saturating_sub(1)]) {
                variants.push((format!("during:{}", ev_class(n)), Some((n.key.clone(), n.data[..cut].to_vec()))));
            }
        }
        for (pos, torn) in variants {
            let image = match &torn {
                None => img.clone(),
                Some((k, d)) => {
                    let mut i = img.clone();
                    i.insert(k.clone(), d.clone());
                    i
                }
            };
            rep.count("crash_images");
            if torn.is_some() {
                rep.count("crash_images_torn_put_in_flight");
            }
            let ck = (h64(&image), snap, snap_hash[snap]);
            let res = match cache.get(&ck) {
                Some(r) => r.clone(),
                None => {
                    rep.count("crash_images_recovered_distinct");
                    let confirmed = &x.snaps[snap];
                    let r = match recover_fold(&image).await {
                        Err(e) => Some((format!("recover-failed:{}", e), format!("recover() failed on the image: {}", e))),
                        Ok(st) => {
                            rep.add("confirmed_keys_checked", confirmed.len() as u64);
                            confirmed.iter().find(|(k, c)| !absorbs(st.get(*k), c)).map(|(k, c)| {
                                ("confirmed-update-missing".to_string(), format!("key {}: confirmed {} but recovered {}", k, show(Some(c)), show(st.get(k))))
                            })
                        }
                    };
                    cache.insert(ck, r.clone());
                    r
                }
            };
            rep.distinct(&(last_fault.as_str(), pos.as_str(), snap > 0, torn.as_ref().map(|t| t.1.is_empty())));
            if let Some((kind, detail)) = res {
                // a key name damaged by a corrupt get does not belong into the signature
                let kind = match kind.find("Key not found") {
                    Some(p) if last_fault.starts_with("corrupt-get@") => kind[..p + "Key not found".len()].to_string(),
                    _ => kind,
                };
                // One root cause, one signature: manifest.json carries no checksum, so a read of it that comes back
                // with a flipped bit and still parses is accepted and written back by the next save; what breaks
                // afterwards (a segment key that never existed, a lost confirmed update, a re-used segment id)
                // and where the crash point lies are consequences, not different findings.
                let sig = if last_fault.starts_with("corrupt-get@") && last_fault.ends_with(".get(manifest)") {
                    "C12|manifest|corrupt-read-accepted-and-written-back|fault:corrupt-get@get(manifest)".to_string()
                } else {
                    format!("C12|recover|{}|{}|fault:{}", kind, pos, last_fault)
                };
                return Some(Crash {
                    kindpos: format!("{}|{}", kind, pos),
                    sig,
                    detail: format!("crash position {} (call index {}), {} flushes confirmed: {}", pos, j, snap, detail),
                    w: json!({"crash_after_call": j, "torn": torn.map(|t| t.1.len())}),
                    j,
                });
            }
        }
    }
    None
}

fn gen_workload(rng: &mut Rng, b: u64) -> (Vec<Step>, XCfg) {
    let n = 3 + (b as usize * 7) % 23; // 3..=25 steps, short workloads first
    let skeys = ["s0", "s1", "s2"];
    let hkeys = ["h0", "h1"];
    let mut steps = vec![];
    let mut seq = 0;
    while steps.len() < n {
        seq += 1;
        let v = format!("v{}", seq);
        let sk = skeys[rng.gen_range(0..3)].to_string();
        let hk = hkeys[rng.gen_range(0..2)].to_string();
        let f = format!("f{}", rng.gen_range(0..3));
        let step = match rng.gen_range(0..100) {
            0..=20 => Step::Set(sk, v),
            21..=24 => Step::SetSwapped(sk, format!("{}a", v), format!("{}b", v)),
            25..=34 => Step::Del(sk),
            35..=49 => Step::HSet(hk, f, v),
            50..=56 => Step::HDel(hk, f),
            57..=59 => {
                // a big batch: its segment ends up above the compaction target
                for i in 0..8 {
                    steps.push(Step::Set(format!("big{}", i), "x".repeat(60)));
                }
                Step::Flush
            }
            60..=81 => Step::Flush,
            _ => Step::Compact,
        };
        steps.push(step);
    }
    // make sure every base execution flushes and compacts
    if b % 2 == 0 {
        steps.extend([Step::Set("s0".into(), "a".into()), Step::Flush, Step::Del("s0".into()), Step::Flush, Step::Compact]);
    }
    let mut cfg = XCfg { target: *[700usize, 1200, 1 << 20].choose(rng).expect("non-empty"), max_per: *[2usize, 3, 5].choose(rng).expect("non-empty") };
    // every fourth base execution is certain to compact next to a segment above the size target (otherwise a shard of a run
    // may by chance see none, and "a required class was never generated" would make the whole run inconclusive)
    if b % 4 == 0 {
        let mut pre: Vec<Step> = (0..8).map(|i| Step::Set(format!("big{}", i), "x".repeat(60))).collect();
        pre.push(Step::Flush);
        pre.extend(steps);
        steps = pre;
        cfg.target = 700;
    }
    (steps, cfg)
}

fn exec_witness(steps: &[Step], cfg: &XCfg, plan: &BTreeMap<u64, Fault>, extra: Value) -> Value {
    json!({"mode": "exec", "steps": steps, "cfg": cfg, "faults": plan.iter().collect::<Vec<_>>(), "crash": extra})
}

/// Bit numbers for the corrupt gets of one read: quick = one per read (mostly in the record area of a segment, where
/// only the CRC pass can notice it), thorough = every area of a segment / several places of any other object.
fn corrupt_bits(rng: &mut Rng, key: &str, len: usize, thorough: bool) -> Vec<u32> {
    let seg = obj_class(key) == "segment";
    match (seg, thorough) {
        (true, false) => {
            let area = if rng.gen_range(0..4) < 3 { "segment-records" } else { "any" };
            vec![bit_in(rng, key, len, area)]
        }
        (true, true) => ["segment-header", "segment-records", "segment-records", "segment-footer", "any"].iter().map(|a| bit_in(rng, key, len, a)).collect(),
        (false, false) => vec![bit_in(rng, key, len, "any")],
        (false, true) => (0..3).map(|_| bit_in(rng, key, len, "any")).collect(),
    }
}

/// Run one execution with a fault plan, check monitor findings and all crash images from the first fault on.
async fn exec_case(rep: &mut Report, steps: &[Step], cfg: &XCfg, plan: &BTreeMap<u64, Fault>, cx: &mut Ctx) -> Exec {
    let x = run_exec(steps, cfg, plan).await;
    rep.evaluations += 1;
    rep.count("executions");
    for (k, v) in &x.stats {
        rep.add(k, *v);
    }
    for e in &x.log {
        rep.count(&format!("store_calls:{}", e.op));
        match e.fault {
            Some(Fault::Fail) => rep.count("faults_hit:clean_failure"),
            Some(Fault::Torn(_)) => rep.count("faults_hit:torn_put"),
            Some(Fault::LostAck) => rep.count("faults_hit:lost_ack"),
            Some(Fault::CorruptGet(n)) if e.len > 0 => {
                rep.count("fault:corrupt-get");
                rep.count(&format!("fault:corrupt-get:{}", flip_area(&e.key, e.len, n)));
                rep.count(&format!("fault:corrupt-get@{}", ev_class(e)));
            }
            Some(Fault::CorruptGet(_)) => rep.count("fault:corrupt-get-of-missing-object"),
            None => {}
        }
    }
    for (sig, detail) in &x.findings {
        rep.violation(sig.clone(), detail.clone(), exec_witness(steps, cfg, plan, json!(null)));
    }
    let from = plan.keys().next().map_or(0, |i| *i as usize);
    if !plan.is_empty() && cx.ff_fail.map_or(false, |j0| j0 < from as isize) {
        rep.count("executions_shadowed_by_fault_free_failure"); // same calls, same failure before the fault
        return x;
    }
    let crash = crash_images(&x, from, &mut cx.cache, rep).await;
    if plan.is_empty() {
        cx.ff_fail = crash.as_ref().map(|c| c.j);
    }
    let found = match crash {
        Some(c) => Some((c.kindpos, c.sig, c.detail, exec_witness(steps, cfg, plan, c.w))),
        None => x.end_finding.clone().map(|(sig, detail)| ("end-state".to_string(), sig, detail, exec_witness(steps, cfg, plan, json!(null)))),
    };
    if let Some(f) = found {
        if plan.is_empty() {
            cx.ff_kinds.insert(f.0.clone());
            rep.violation(f.1, f.2, f.3);
        } else {
            cx.deferred.push(f);
        }
    }
    x
}

/// Report the failures of faulted runs that no fault-free run shows.
fn flush_deferred(rep: &mut Report, cx: &mut Ctx) {
    for (kindpos, sig, detail, w) in cx.deferred.drain(..) {
        if cx.ff_kinds.contains(&kindpos) {
            rep.count("faulted_failures_explained_by_fault_free_runs");
        } else {
            rep.violation(sig, detail, w);
        }
    }
}

/// Stand-alone WriteBuffer: its flush has the same take-then-fail shape.
async fn write_buffer_case(rep: &mut Report, n: usize, fault: Option<Fault>) {
    let store = PlanStore::new();
    let wb = WriteBuffer::new(Arc::new(store.tag(1)), "wb".to_string(), WriteBufferConfig::test());
    let ups: Vec<ReplicationDelta> = (0..n).map(|i| mk_delta(&U { key: format!("w{}", i), rid: 1, t: 4 + i as u64, k: UK::Val(format!("v{}", i)) }, (0, 1))).collect();
    ups.iter().for_each(|d| wb.push(d.clone()).expect("push"));
    store.arm(fault.clone().map(|f| (0u64, f)).into_iter().collect());
    let first = wb.flush().await;
    rep.evaluations += 1;
    rep.count("write_buffer_cases");
    let w = json!({"mode": "wb", "n": n, "fault": fault});
    if first.is_err() {
        rep.count("write_buffer_flush_err");
        rep.distinct(&("wb", n.min(2), fault_class(&store.take_log().1[0])));
        if wb.pending_count() != n {
            rep.violation(
                "C12|WriteBuffer::flush|accepted-updates-discarded|call-returned-Err,process-keeps-running",
                format!("{} updates accepted, flush returned Err, pending_count() = {}", n, wb.pending_count()),
                w.clone(),
            );
        }
    }
    // whatever happened, a later successful flush must leave every accepted update in some valid segment
    let _ = wb.flush().await;
    let mut st = State::new();
    for data in store.objects().values() {
        if let Ok(r) = redis_sim::streaming::SegmentReader::open(data) {
            if r.validate().is_ok() {
                r.read_all().unwrap_or_default().iter().for_each(|d| merge_into(&mut st, d));
            }
        }
    }
    let missing = ups.iter().filter(|d| !absorbs(st.get(&d.key), &d.value)).count();
    if missing > 0 {
        rep.count("write_buffer_updates_never_written");
        if first.is_ok() {
            rep.violation("C12|WriteBuffer::flush|flushed-update-not-in-store|flush-returned-Ok", format!("{} of {} updates missing", missing, n), w);
        }
    }
}

/// One flush of the concurrent WriteBuffer cases: `pre` updates are pushed, flush() starts and parks at its segment
/// PUT, `during` more updates are pushed while the PUT is in flight, then the PUT ends with `outcome` (None = Ok).
#[derive(Clone, Debug, PartialEq, Serialize, Deserialize)]
struct WbRound {
    pre: usize,
    during: usize,
    outcome: Option<Fault>,
}

/// WriteBuffer with push() racing flush(): conservation after every round (every accepted update is either in the
/// segment of a flush that returned Ok or still pending) and, after a closing fault-free flush, every accepted
/// update is in some valid segment.
async fn write_buffer_concurrent_case(rep: &mut Report, rounds: &[WbRound]) {
    let store = PlanStore::new();
    let wb = WriteBuffer::new(Arc::new(store.tag(1)), "wb".to_string(), WriteBufferConfig::test());
    let w = json!({"mode": "wb-concurrent", "rounds": rounds});
    let mut accepted: Vec<ReplicationDelta> = vec![];
    let mut pending = 0usize; // model: accepted and not yet part of a flush that returned Ok
    let mut reported = false;
    store.arm(BTreeMap::new());
    rep.evaluations += 1;
    rep.count("write_buffer_concurrent_cases");
    let push = |accepted: &mut Vec<ReplicationDelta>| {
        let i = accepted.len() as u64;
        let d = mk_delta(&U { key: format!("w{}", i), rid: 1, t: 4 + i, k: UK::Val(format!("v{}", i)) }, (0, 1));
        let ok = wb.push(d.clone()).is_ok();
        if ok {
            accepted.push(d);
        }
        ok
    };
    for (ri, r) in rounds.iter().enumerate() {
        for _ in 0..r.pre {
            if push(&mut accepted) {
                pending += 1;
            }
        }
        let taken = pending;
        let mut during = 0usize;
        store.set_hold();
        let res = {
            let mut fl = Box::pin(wb.flush());
            let mut early = None;
            for _ in 0..1000 {
                match futures::poll!(fl.as_mut()) {
                    std::task::Poll::Ready(x) => {
                        early = Some(x);
                        break;
                    }
                    std::task::Poll::Pending if store.parked() => break,
                    std::task::Poll::Pending => {}
                }
            }
            match early {
                Some(x) => x, // nothing to flush: no PUT
                None => {
                    if !store.parked() {
                        rep.inconclusive("WriteBuffer::flush neither finished nor reached its segment PUT within 1000 polls");
                    }
                    for _ in 0..r.during {
                        if push(&mut accepted) {
                            pending += 1;
                            during += 1;
                            rep.count("writebuffer:push-during-flush");
                        }
                    }
                    store.release(r.outcome.clone());
                    fl.await
                }
            }
        };
        store.clear_hold();
        let how = if res.is_ok() { "put-succeeds" } else { "put-fails" };
        if during > 0 {
            rep.count(&format!("writebuffer:push-during-flush:{}", how));
            rep.distinct(&("wb-concurrent", taken.min(3), during, how, r.outcome.as_ref().map(|f| matches!(f, Fault::Torn(_))), ri.min(2)));
        }
        let expected = if res.is_ok() { pending - taken } else { pending };
        let have = wb.pending_count();
        if have < expected && !reported {
            reported = true;
            let class = match (during > 0, res.is_ok()) {
                (true, false) => "push-accepted-while-segment-PUT-in-flight,PUT-fails",
                (true, true) => "push-accepted-while-segment-PUT-in-flight,PUT-succeeds",
                (false, false) => "call-returned-Err,process-keeps-running",
                (false, true) => "flush-returned-Ok",
            };
            rep.violation(
                format!("C12|WriteBuffer::flush|accepted-updates-discarded|{}", class),
                format!(
                    "round {}: {} accepted updates were taken by flush(), {} more were accepted by push() while its PUT was in flight, flush returned {}; {} accepted updates are not yet in a successful flush, pending_count() = {}",
                    ri, taken, during, if res.is_ok() { "Ok" } else { "Err" }, expected, have
                ),
                w.clone(),
            );
        } else if have > expected {
            rep.count("write_buffer_pending_more_than_unconfirmed"); // duplicates are harmless for merge
        }
        pending = have; // after a discrepancy the model follows the buffer: later rounds are judged on their own
    }
    // closing flush, fault-free; then every accepted update must sit in some valid segment
    let closing = wb.flush().await;
    let mut st = State::new();
    for data in store.objects().values() {
        if let Ok(r) = redis_sim::streaming::SegmentReader::open(data) {
            if r.validate().is_ok() {
                r.read_all().unwrap_or_default().iter().for_each(|d| merge_into(&mut st, d));
            }
        }
    }
    let missing = accepted.iter().filter(|d| !absorbs(st.get(&d.key), &d.value)).count();
    if missing > 0 {
        rep.count("write_buffer_concurrent_updates_never_written");
        if !reported && closing.is_ok() {
            let class = if rounds.iter().any(|r| r.during > 0) { "push-accepted-while-segment-PUT-in-flight" } else { "no-concurrent-push" };
            rep.violation(
                format!("C12|WriteBuffer::flush|accepted-update-in-no-segment-after-successful-flush|{}", class),
                format!("{} of {} accepted updates are in no valid segment after a closing flush that returned Ok (pending_count() = {})", missing, accepted.len(), wb.pending_count()),
                w,
            );
        }
    }
}

fn wb_rounds_directed() -> Vec<Vec<WbRound>> {
    let r = |pre, during, outcome| WbRound { pre, during, outcome };
    let mut v = vec![];
    for pre in [1usize, 2, 7] {
        for during in [1usize, 2, 3] {
            for outcome in [Some(Fault::Fail), None, Some(Fault::Torn(500))] {
                v.push(vec![r(pre, during, outcome)]);
            }
        }
    }
    v.push(vec![r(1, 1, Some(Fault::Fail)), r(0, 1, Some(Fault::Fail))]);
    v.push(vec![r(2, 2, Some(Fault::Fail)), r(1, 0, None)]);
    v.push(vec![r(1, 1, None), r(1, 2, Some(Fault::Fail))]);
    v.push(vec![r(3, 1, Some(Fault::Torn(0))), r(0, 0, None)]);
    v.push(vec![r(2, 0, Some(Fault::Fail)), r(0, 3, Some(Fault::Torn(999))), r(0, 1, None)]);
    v
}

fn gen_wb_rounds(rng: &mut Rng) -> Vec<WbRound> {
    (0..rng.gen_range(1..=4))
        .map(|i| WbRound {
            pre: rng.gen_range(if i == 0 { 1 } else { 0 }..=5),
            during: rng.gen_range(0..=3),
            outcome: match rng.gen_range(0..5) {
                0..=1 => Some(Fault::Fail),
                2 => Some(Fault::Torn(rng.gen_range(0..1000))),
                _ => None,
            },
        })
        .collect()
}

async fn crash_body(rep: &mut Report, args: &Args) {
    if let Some(p) = &args.replay {
        let w = read_witness(p);
        if w["mode"] == "wb" {
            write_buffer_case(rep, w["n"].as_u64().unwrap_or(1) as usize, serde_json::from_value(w["fault"].clone()).unwrap_or(None)).await;
        } else if w["mode"] == "wb-concurrent" {
            write_buffer_concurrent_case(rep, &serde_json::from_value::<Vec<WbRound>>(w["rounds"].clone()).expect("rounds")).await;
        } else {
            let steps: Vec<Step> = serde_json::from_value(w["steps"].clone()).expect("steps");
            let cfg: XCfg = serde_json::from_value(w["cfg"].clone()).expect("cfg");
            let plan: BTreeMap<u64, Fault> = serde_json::from_value::<Vec<(u64, Fault)>>(w["faults"].clone()).expect("faults").into_iter().collect();
            let mut cx = Ctx::default();
            exec_case(rep, &steps, &cfg, &plan, &mut cx).await;
            flush_deferred(rep, &mut cx);
        }
        return;
    }
    validate_store(rep, args.seed).await;
    let bases = args.get_u64("bases", if args.thorough() { 48_000 } else { 1200 });
    let doubles = args.get_u64("doubles", if args.thorough() { 60 } else { 30 });
    // --corrupt_manifest 0 leaves the reads of the manifest out of the corrupt gets (the report is then inconclusive)
    let corrupt_manifest = args.get_u64("corrupt_manifest", 1) != 0;
    let mut cx = Ctx::default();
    for b in 0..bases {
        if b % args.shards as u64 != args.shard as u64 {
            continue;
        }
        let mut rng = rng_from(args.seed, 1_200_000 + b);
        // the class index counts this shard's own base executions (b itself keeps one residue per shard)
        let (steps, cfg) = gen_workload(&mut rng, b / args.shards as u64);
        cx.cache.clear();
        cx.ff_fail = None;
        rep.count("base_executions");
        let ff = exec_case(rep, &steps, &cfg, &BTreeMap::new(), &mut cx).await;
        let n = ff.log.len();
        rep.max("store_calls_per_execution", n as u64);
        if b < 3 {
            rep.sample(json!({"steps": steps, "cfg": cfg, "store_calls": ff.log.iter().map(ev_class).collect::<Vec<_>>(), "flushes_confirmed": ff.rets.len()}));
        }
        // every single-fault placement (the corrupt gets draw from their own stream: the other placements stay put)
        let mut crng = rng_from(args.seed, 1_250_000 + b);
        for i in 0..n {
            let mut kinds = vec![Fault::Fail];
            if ff.log[i].op == "put" {
                kinds.extend([Fault::Torn(500), Fault::Torn(rng.gen_range(0..1000))]);
            }
            if matches!(ff.log[i].op, "put" | "delete" | "rename") {
                kinds.push(Fault::LostAck);
            }
            if ff.log[i].op == "get" && ff.log[i].len > 0 && (corrupt_manifest || obj_class(&ff.log[i].key) == "segment") {
                kinds.extend(corrupt_bits(&mut crng, &ff.log[i].key, ff.log[i].len, args.thorough()).into_iter().map(Fault::CorruptGet));
            }
            for f in kinds {
                rep.count("fault_placements_single");
                exec_case(rep, &steps, &cfg, &BTreeMap::from([(i as u64, f)]), &mut cx).await;
            }
        }
        // sampled double faults
        for _ in 0..doubles.min((n * n / 4) as u64) {
            let i = rng.gen_range(0..n as u64);
            let j = rng.gen_range(i + 1..=n as u64 + 2);
            let mut f = || if rng.gen_bool(0.6) { Fault::Fail } else { Fault::Torn(rng.gen_range(0..1000)) };
            rep.count("fault_placements_double");
            exec_case(rep, &steps, &cfg, &BTreeMap::from([(i, f()), (j, f())]), &mut cx).await;
        }
        // sampled double faults whose first one is a corrupt get of a segment (a failure is attributed to the last
        // fault before it, and a corrupt get of the manifest followed by anything else would be misattributed)
        let gets: Vec<usize> = (0..n).filter(|i| ff.log[*i].op == "get" && ff.log[*i].len > 0 && obj_class(&ff.log[*i].key) == "segment").collect();
        for _ in 0..(doubles / 6).min(gets.len() as u64) {
            let i = *gets.choose(&mut crng).expect("non-empty");
            let j = crng.gen_range(i as u64 + 1..=n as u64 + 2);
            let area = if crng.gen_bool(0.7) { "segment-records" } else { "any" };
            let first = Fault::CorruptGet(bit_in(&mut crng, &ff.log[i].key, ff.log[i].len, area));
            let second = match crng.gen_range(0..3) {
                0 => Fault::Fail,
                1 => Fault::Torn(crng.gen_range(0..1000)),
                _ if corrupt_manifest => Fault::CorruptGet(crng.gen()),
                _ => Fault::Fail,
            };
            rep.count("fault_placements_double_with_corrupt_get");
            exec_case(rep, &steps, &cfg, &BTreeMap::from([(i as u64, first), (j, second)]), &mut cx).await;
        }
    }
    flush_deferred(rep, &mut cx);
    for n in [1usize, 2, 7] {
        for f in [None, Some(Fault::Fail), Some(Fault::Torn(0)), Some(Fault::Torn(500)), Some(Fault::Torn(999))] {
            write_buffer_case(rep, n, f).await;
        }
    }
    // push() racing flush(): a parked segment PUT, updates accepted meanwhile, then the PUT fails / succeeds
    for rounds in wb_rounds_directed() {
        write_buffer_concurrent_case(rep, &rounds).await;
    }
    for i in 0..args.get_u64("wb_random", if args.thorough() { 4000 } else { 100 }) {
        write_buffer_concurrent_case(rep, &gen_wb_rounds(&mut rng_from(args.seed, 1_260_000 + i))).await;
    }
    rep.exhaustive = true; // per explored execution: every crash index, every single-fault placement
    let counters = rep.counters.clone();
    let c = |k: &str| counters.get(k).copied().unwrap_or(0);
    for (k, why) in [
        ("flush_ok", "no flush ever succeeded"),
        ("flush_err", "no flush ever failed"),
        ("compact_ok", "no compaction ever ran"),
        ("compact_ok_skipping_large_segment", "no compaction ran with a segment above the target size"),
        ("compact_err", "no compaction ever failed"),
        ("faults_hit:clean_failure", "no clean failure was injected"),
        ("faults_hit:torn_put", "no torn put was injected"),
        ("fault:corrupt-get", "no corrupt get was injected"),
        ("fault:corrupt-get:segment-records", "no corrupt get damaged the record area of a segment"),
        ("fault:corrupt-get@compact.get(segment)", "no corrupt get hit a compaction's read of an input segment"),
        ("fault:corrupt-get@compact.get(manifest)", "no corrupt get hit a compaction's read of the manifest"),
        ("fault:corrupt-get@flush.get(manifest)", "no corrupt get hit a flush's read of the manifest"),
        ("writebuffer:push-during-flush", "no push() was accepted while a WriteBuffer flush had its segment PUT in flight"),
        ("writebuffer:push-during-flush:put-fails", "no segment PUT failed after a push() was accepted while it was in flight"),
        ("writebuffer:push-during-flush:put-succeeds", "no segment PUT succeeded after a push() was accepted while it was in flight"),
        ("crash_images_torn_put_in_flight", "no torn in-flight image was checked"),
        ("confirmed_keys_checked", "no confirmed update was ever compared with a recovered image"),
        ("write_buffer_flush_err", "the stand-alone WriteBuffer never saw a failing flush"),
    ] {
        if c(k) == 0 {
            rep.inconclusive(why);
        }
    }
}

pub fn crash_leg(args: &Args) {
    let mut rep = Report::new("C12", "crash");
    if let Err(p) = guard(|| runtime().block_on(crash_body(&mut rep, args))) {
        rep.inconclusive(format!("harness panic: {}", p));
    }
    rep.finish(args);
}

// ================================================================== C13: compaction preserves recovery

#[derive(Clone, Debug, PartialEq, Serialize, Deserialize)]
struct Seg {
    ups: Vec<U>,
    large: bool, // carries a filler value that puts the segment above the size target
}

#[derive(Clone, Debug, PartialEq, Serialize, Deserialize)]
enum Clock {
    Manual { cutoff: u64 }, // manual TimeSource at cutoff + ttl; stamps are read as milliseconds
    ProdLogical,            // production TimeSource, stamps are the logical Lamport times replicas issue
    ProdWall { pivot: u64 }, // production TimeSource, stamps on the wall-clock scale: t < pivot is older than the TTL
}

#[derive(Clone, Debug, PartialEq, Serialize, Deserialize)]
struct Layout {
    segs: Vec<Seg>,
    ckpt: usize, // the first `ckpt` segments have been folded into a checkpoint (0 = no checkpoint)
    target: usize,
    max_per: usize,
    ttl_ms: u64,
    clock: Clock,
    /// what a flush leaves behind whose segment upload succeeded and whose manifest save failed: a valid segment object (with
    /// other content) under the very id the next writer - flush or compaction - will pick
    #[serde(default)]
    residue: bool,
}

const FILLER: usize = 3000;
const HOUR_MS: u64 = 3_600_000;

impl Layout {
    fn tmap(&self) -> (u64, u64) {
        match self.clock {
            // one logical tick = one minute, pivot sits 30 s on the young side of the cutoff
            Clock::ProdWall { pivot } => (ProductionTimeSource::new().now_millis() - self.ttl_ms - pivot * 60_000 + 30_000, 60_000),
            _ => (0, 1),
        }
    }
    /// May compaction drop a tombstone with logical time t?
    fn droppable(&self, stamp: u64) -> bool {
        let tm = self.tmap();
        match self.clock {
            Clock::Manual { cutoff } => stamp < cutoff,
            Clock::ProdLogical => false, // written during this run, the TTL is an hour
            Clock::ProdWall { pivot } => stamp < tm.0 + pivot * tm.1 - 30_000,
        }
    }
    fn clock_class(&self) -> &'static str {
        match self.clock {
            Clock::Manual { .. } => "manual-clock",
            Clock::ProdLogical => "production-clock+logical-stamps",
            Clock::ProdWall { .. } => "production-clock+wall-scale-stamps",
        }
    }
}

/// Materialise a layout with the real flush path (one flush per segment) and, for the checkpoint, the real
/// CheckpointManager + Manifest::compact_segments.
async fn build_layout(l: &Layout) -> PlanStore {
    let store = PlanStore::new();
    let tm = l.tmap();
    let mut pers = StreamingPersistence::with_clock(Arc::new(store.tag(2)), PFX.into(), 1, WriteBufferConfig::test(), SimulatedClock::new(0)).await.expect("construct");
    let mut folded = State::new();
    for (i, s) in l.segs.iter().enumerate() {
        for u in &s.ups {
            let d = mk_delta(u, tm);
            merge_into(&mut folded, &d);
            pers.push(d).expect("push");
        }
        if s.large {
            let d = mk_delta(&U { key: format!("zfill{}", i), rid: 9, t: 4, k: UK::Val("x".repeat(FILLER)) }, (0, 1));
            merge_into(&mut folded, &d);
            pers.push(d).expect("push");
        }
        pers.flush().await.expect("fault-free flush");
        if l.ckpt > 0 && i + 1 == l.ckpt {
            let mm = ManifestManager::new(store.clone(), PFX);
            // the checkpoint is stamped by the clock the layout runs under (wall-clock milliseconds with the production clock)
            let r = match l.clock {
                Clock::Manual { .. } => CheckpointManager::with_time_source(Arc::new(store.clone()), PFX.into(), mm.clone(), CheckpointConfig::test(), ManualTime(0)).create_checkpoint(folded.clone().into_iter().collect(), i as u64).await.expect("checkpoint"),
                _ => CheckpointManager::with_time_source(Arc::new(store.clone()), PFX.into(), mm.clone(), CheckpointConfig::test(), ProductionTimeSource::new()).create_checkpoint(folded.clone().into_iter().collect(), i as u64).await.expect("checkpoint"),
            };
            let mut m = mm.load().await.expect("manifest");
            m.compact_segments(CheckpointInfo { key: r.key, timestamp_ms: r.timestamp_ms, key_count: r.key_count, last_segment_id: r.last_segment_id });
            mm.save(&m).await.expect("manifest save");
        }
    }
    if l.residue {
        // the object a failed flush leaves: a valid segment (a copy of the oldest one, i.e. other content than whatever will be
        // written next) under the id the manifest hands out next, referenced by nothing
        let objs = store.objects();
        if let Ok(m) = serde_json::from_slice::<redis_sim::streaming::Manifest>(&objs[&format!("{}/manifest.json", PFX)]) {
            if let Some(first) = objs.iter().find(|(k, _)| obj_class(k) == "segment").map(|(_, v)| v.clone()) {
                let _ = store.put(&format!("{}/segments/segment-{:08}.seg", PFX, m.next_segment_id), &first).await;
            }
        }
    }
    store
}

struct Outcome {
    kind: Option<(String, String, String)>, // (divergence kind, key, detail)
    removed: BTreeSet<u64>,                 // segment ids compaction removed
    compacted: bool,
    dropped_legit: u64,
    before_segments: Vec<(u64, u64)>, // (id, size)
    image: Objs,                      // the store before the compaction
    before: State,                    // what recovery returned before the compaction
    reads: Vec<(u64, String, usize)>, // compaction's reads of input segments: (call index, key, length)
}

async fn compact_layout(l: &Layout, store: &PlanStore) -> Result<Result<CompactionResult, CompactionError>, String> {
    let cfg = ccfg(l.target, 2, l.max_per, l.ttl_ms);
    match l.clock {
        Clock::Manual { cutoff } => compact_with(store, cfg, ManualTime(cutoff + l.ttl_ms)).await,
        _ => compact_with(store, cfg, ProductionTimeSource::new()).await,
    }
}

/// First key on which the state recovered after a compaction differs from the one before it (a tombstone older than
/// the TTL may be gone), as (kind, key, detail), and the number of tombstones dropped legitimately.
fn compare_states(l: &Layout, before: &State, after: &State) -> (Option<(String, String, String)>, u64) {
    let mut dropped_legit = 0;
    let keys: BTreeSet<&String> = before.keys().chain(after.keys()).collect();
    for k in keys {
        let (b, a) = (before.get(k), after.get(k));
        if b.map(pi) == a.map(pi) {
            continue;
        }
        let tomb = b.map_or(false, |b| b.is_tombstone());
        let kind = match (b, a) {
            (Some(b), None) if tomb && l.droppable(b.timestamp.time) => {
                dropped_legit += 1;
                continue;
            }
            (Some(_), None) if tomb => "tombstone-dropped-before-ttl",
            (Some(_), Some(a)) if tomb && !a.is_tombstone() => "deleted-key-resurrected",
            (Some(_), Some(_)) if tomb => "older-tombstone-resurfaced",
            (Some(_), None) => "key-lost",
            (None, Some(_)) => "key-appeared",
            _ => "value-changed",
        };
        return (Some((kind.to_string(), k.clone(), format!("key {}: recovered before compaction {} / after {}", k, show(b), show(a)))), dropped_legit);
    }
    (None, dropped_legit)
}

/// Compaction run by the integration's own worker (not by a Compactor the harness builds): same before / after oracle.
async fn integration_worker_cases(rep: &mut Report) {
    let u = |key: &str, t: u64, k: UK| U { key: key.into(), rid: 1, t, k };
    let seg = |ups: Vec<U>| Seg { ups, large: false };
    for (ttl_ms, pivot) in [(7 * 24 * HOUR_MS, 60u64), (2 * HOUR_MS, 60), (36 * HOUR_MS, 60)] {
        // logical tick = one minute around the pivot: t = pivot-40 is 40 minutes older than the TTL, pivot+30 is younger
        for tomb_t in [pivot - 40, pivot + 30] {
            let l = Layout {
                segs: vec![
                    seg(vec![u("victim", tomb_t - 5, UK::Val("old-value".into())), u("other", tomb_t - 4, UK::Val("x".into()))]),
                    seg(vec![u("victim", tomb_t, UK::Tomb)]),
                    seg(vec![u("third", tomb_t + 1, UK::Val("y".into()))]),
                ],
                ckpt: 0,
                target: 1 << 20,
                max_per: 10,
                ttl_ms,
                clock: Clock::ProdWall { pivot },
                residue: false,
            };
            let store = build_layout(&l).await;
            let Ok(before) = recover_fold(&store.objects()).await else {
                rep.inconclusive("integration-worker layout does not recover before compaction");
                return;
            };
            let mut cfg = StreamingConfig::test();
            cfg.prefix = PFX.into();
            cfg.compaction.max_segments = 1;
            cfg.compaction.min_segments_to_compact = 2;
            cfg.compaction.target_segment_size = l.target;
            cfg.compaction.max_segments_per_compaction = l.max_per;
            cfg.compaction.tombstone_ttl = Duration::from_millis(ttl_ms);
            let integ = StreamingIntegration::with_store(Arc::new(store.tag(0)), cfg, 1);
            let handles = match integ.start_workers().await {
                Ok((h, _sender)) => h,
                Err(e) => {
                    rep.inconclusive(format!("StreamingIntegration::start_workers failed: {}", e));
                    return;
                }
            };
            // the worker looks once a minute (virtual time: the runtime's clock is paused and auto-advances)
            tokio::time::sleep(Duration::from_secs(200)).await;
            handles.shutdown().await;
            rep.evaluations += 1;
            rep.count("integration_worker_cases");
            let segs_after = store.objects().keys().filter(|k| k.contains("/segments/")).count();
            if segs_after < 3 {
                rep.count("integration_worker_compacted");
            }
            rep.distinct(&("integration-worker", ttl_ms, tomb_t < pivot));
            match recover_fold(&store.objects()).await {
                Err(e) => rep.violation("C13|integration-worker|recover-failed-after-compaction", e, json!({"mode": "integration-worker", "layout": l})),
                Ok(after) => {
                    if let (Some((kind, _, detail)), _) = compare_states(&l, &before, &after) {
                        rep.violation(
                            format!("C13|integration-worker|{}|ttl={}", kind, if ttl_ms > 24 * HOUR_MS { ">24h" } else { "<24h" }),
                            format!("compaction run by StreamingIntegration's worker with tombstone_ttl = {} h: {}", ttl_ms / HOUR_MS, detail),
                            json!({"mode": "integration-worker", "layout": l}),
                        );
                    }
                }
            }
        }
    }
    if rep.counters.get("integration_worker_compacted").copied().unwrap_or(0) == 0 {
        rep.inconclusive("the integration's compaction worker never compacted a layout");
    }
}

/// recover → compact → recover on a layout and compare.
async fn eval_layout(l: &Layout) -> Result<Outcome, String> {
    let store = build_layout(l).await;
    let before = recover_fold(&store.objects()).await.map_err(|e| format!("recovery of the generated layout failed: {}", e))?;
    let m: redis_sim::streaming::Manifest = serde_json::from_slice(&store.objects()[&format!("{}/manifest.json", PFX)]).map_err(|e| e.to_string())?;
    let mut out = Outcome { kind: None, removed: BTreeSet::new(), compacted: false, dropped_legit: 0, before_segments: m.segments.iter().map(|s| (s.id, s.size_bytes)).collect(), image: store.objects(), before, reads: vec![] };
    store.arm(BTreeMap::new());
    let res = compact_layout(l, &store).await;
    let (_, log) = store.take_log();
    out.reads = log.iter().enumerate().filter(|(_, e)| e.op == "get" && e.len > 0 && obj_class(&e.key) == "segment").map(|(i, e)| (i as u64, e.key.clone(), e.len)).collect();
    match res {
        Err(p) => {
            out.kind = Some(("panic".into(), String::new(), p));
            return Ok(out);
        }
        Ok(Err(CompactionError::NothingToCompact)) => return Ok(out),
        Ok(Err(e)) => return Err(format!("fault-free compaction failed: {}", e)),
        Ok(Ok(r)) => {
            out.compacted = true;
            out.removed = r.segments_removed.iter().map(|s| s.id).collect();
        }
    }
    let after = match recover_fold(&store.objects()).await {
        Ok(a) => a,
        Err(e) => {
            out.kind = Some((format!("recover-failed:{}", e), String::new(), e));
            return Ok(out);
        }
    };
    let (kind, dropped_legit) = compare_states(l, &out.before, &after);
    out.kind = kind;
    out.dropped_legit = dropped_legit;
    Ok(out)
}

/// What the segment reader makes of the bytes a corrupt get hands to compaction.
fn damage_class(data: &[u8]) -> &'static str {
    match redis_sim::streaming::SegmentReader::open(data) {
        Err(_) => "open-fails",
        Ok(r) if r.validate().is_err() => "crc-mismatch",
        Ok(_) => "undetectable",
    }
}

/// The compaction of a layout once more with one corrupt get on the read at call index `call`: it may refuse or
/// skip the segment, it must not lose or alter anything that recovery returned before.
async fn corrupt_get_case(rep: &mut Report, l: &Layout, o: &Outcome, call: u64, bit: u32) {
    let Some((_, key, len)) = o.reads.iter().find(|r| r.0 == call) else {
        return rep.inconclusive("corrupt-get case: the call index is not a read of an input segment");
    };
    let class = damage_class(&flip_bit(o.image[key].clone(), bit));
    let area = flip_area(key, *len, bit);
    rep.evaluations += 1;
    rep.count("fault:corrupt-get");
    rep.count(&format!("fault:corrupt-get:{}", area));
    rep.count(&format!("corrupt_get:damage:{}", class));
    let store = PlanStore::from_objects(o.image.clone());
    store.arm(BTreeMap::from([(call, Fault::CorruptGet(bit))]));
    let res = compact_layout(l, &store).await;
    let delivered = store.take_log().1.get(call as usize).map_or(false, |e| matches!(e.fault, Some(Fault::CorruptGet(_))) && e.key == *key);
    if !delivered {
        return rep.inconclusive("corrupt-get case: the corrupt get did not reach the planned read (compaction is not deterministic?)");
    }
    let w = json!({"mode": "layout-corrupt-get", "layout": l, "call": call, "bit": bit});
    // the way recovery differs afterwards (key lost, value changed, tombstone gone ...) depends on the layout, not
    // on the defect: the signature names the damage and what compaction did with the damaged input
    let removed = res.as_ref().ok().and_then(|r| r.as_ref().ok()).map_or(false, |r| r.segments_removed.iter().any(|s| s.key == *key));
    let fate = if removed { "damaged-input-removed" } else { "damaged-input-kept" };
    let sig = |kind: &str| format!("C13|compact|{}|corrupt-get@compact.get(segment),{},{}", kind, class, fate);
    let what = format!("one corrupt get of {} (bit {} flipped, {}; the reader's verdict on those bytes: {})", key, bit as usize % (len * 8), area, class);
    let outcome = match &res {
        Err(p) => return rep.violation(sig("panic"), format!("{}: {}", what, p), w),
        Ok(Ok(r)) => {
            rep.count("corrupt_get:compaction_ok");
            if r.segments_removed.iter().any(|s| s.key == *key) {
                rep.count(&format!("corrupt_get:damaged_input_removed:{}", class));
            }
            format!("compaction returned Ok and removed segments {:?}", r.segments_removed.iter().map(|s| s.id).collect::<Vec<_>>())
        }
        Ok(Err(e)) => {
            rep.count("corrupt_get:compaction_refused");
            format!("compaction returned Err({})", e)
        }
    };
    rep.distinct(&("corrupt-get", area, class, res.as_ref().map_or(false, |r| r.is_ok()), o.reads.len().min(4), l.ckpt > 0));
    match recover_fold(&store.objects()).await {
        Err(e) => rep.violation(sig(&format!("recover-failed:{}", e)), format!("{}; {}; recovery afterwards fails: {}", what, outcome, e), w),
        Ok(after) => {
            if let (Some((kind, _, detail)), _) = compare_states(l, &o.before, &after) {
                rep.count(&format!("corrupt_get:divergence:{}", kind));
                rep.violation(sig("recovery-differs-after-corrupt-read"), format!("{}; {}; {}: {}", what, outcome, kind, detail), w);
            }
        }
    }
}

/// One corrupt get on each input segment read in turn (quick: one bit per read, thorough: every area).
async fn corrupt_get_cases(rep: &mut Report, l: &Layout, o: &Outcome, rng: &mut Rng, thorough: bool) {
    rep.count("layouts_with_corrupt_get_cases");
    for (call, key, len) in &o.reads {
        let areas: &[&str] = if thorough { &["segment-header", "segment-records", "segment-records", "segment-footer", "any"] } else { &[["segment-records", "segment-records", "segment-header", "segment-footer"][rng.gen_range(0..4)]] };
        for area in areas {
            corrupt_get_case(rep, l, o, *call, bit_in(rng, key, *len, area)).await;
        }
    }
}

/// Smaller layouts to try while shrinking.
fn smaller(l: &Layout) -> Vec<Layout> {
    let mut v = vec![];
    for i in 0..l.segs.len() {
        let mut c = l.clone();
        c.segs.remove(i);
        if i < c.ckpt {
            c.ckpt -= 1;
        }
        v.push(c);
    }
    if l.ckpt > 0 {
        v.push(Layout { ckpt: 0, ..l.clone() });
    }
    for i in 0..l.segs.len() {
        if l.segs[i].large {
            let mut c = l.clone();
            c.segs[i].large = false;
            v.push(c);
        }
        for j in 0..l.segs[i].ups.len() {
            if l.segs[i].ups.len() > 1 || l.segs[i].large {
                let mut c = l.clone();
                c.segs[i].ups.remove(j);
                v.push(c);
            }
            if let UK::HSet(fs) = &l.segs[i].ups[j].k {
                if fs.len() > 1 {
                    let mut c = l.clone();
                    c.segs[i].ups[j].k = UK::HSet(fs[..1].to_vec());
                    v.push(c);
                }
            }
        }
    }
    if l.max_per < 10 {
        v.push(Layout { max_per: 10, ..l.clone() });
    }
    v
}

/// Input class of a (shrunk) diverging layout: what kinds of updates meet on the key, and where they sit.
fn layout_class(l: &Layout, o: &Outcome, key: &str, kind: &str) -> String {
    let mut tys = BTreeSet::new();
    let mut times = vec![];
    let mut place = "all-compacted";
    for (i, s) in l.segs.iter().enumerate() {
        let filler = U { key: format!("zfill{}", i), rid: 9, t: 4, k: UK::Tomb };
        for u in s.ups.iter().chain(s.large.then_some(&filler)).filter(|u| u.key == key) {
            tys.insert(u.ty());
            times.push(u.t);
            if i < l.ckpt {
                place = "older-state-in-checkpoint";
            } else if !o.removed.contains(&(i as u64)) && place == "all-compacted" {
                place = "older-state-in-skipped-segment";
            }
        }
    }
    let n = times.len();
    times.sort();
    times.dedup();
    let ty = tys.into_iter().collect::<Vec<_>>().join("+");
    if kind == "tombstone-dropped-before-ttl" {
        format!("{},{},{}", ty, place, l.clock_class())
    } else if place != "all-compacted" {
        format!("{},{}", ty, place)
    } else {
        format!("{},{},{}", ty, if times.len() < n { "equal-times" } else { "distinct-times" }, place)
    }
}

/// Where the age of a tombstone (manual clock) lies relative to a TTL with a sub-second part and to what is left
/// of that TTL when the sub-second part is dropped.
fn sub_second_age_class(l: &Layout, stamp: u64) -> Option<&'static str> {
    let Clock::Manual { cutoff } = l.clock else { return None };
    if l.ttl_ms % 1000 == 0 {
        return None;
    }
    let age = (cutoff + l.ttl_ms) as i128 - stamp as i128;
    let (ttl, trunc) = (l.ttl_ms as i128, (l.ttl_ms / 1000 * 1000) as i128);
    Some(match () {
        _ if age > ttl => "older-than-ttl",
        _ if age == ttl => "at-ttl",
        _ if age > trunc => "between-truncated-and-configured-ttl",
        _ if age == trunc => "at-truncated-ttl",
        _ => "younger-than-truncated-ttl",
    })
}

/// `corrupt`: also run the corrupt-get cases of the layout (when its fault-free compaction preserves recovery).
async fn layout_case(rep: &mut Report, l: &Layout, want_sample: bool, corrupt: Option<(Rng, bool)>) {
    rep.evaluations += 1;
    rep.count("layouts");
    if l.residue {
        rep.count("layouts_with_the_residue_of_a_failed_flush_under_the_next_segment_id");
    }
    let o = match eval_layout(l).await {
        Ok(o) => o,
        Err(e) => return rep.inconclusive(format!("layout could not be evaluated: {}", e)),
    };
    rep.count(if o.compacted { "layouts_compacted" } else { "layouts_nothing_to_compact" });
    rep.add("tombstones_dropped_legitimately", o.dropped_legit);
    if o.compacted {
        let small = |s: &(u64, u64)| s.1 < l.target as u64;
        let skipped_large = o.before_segments.iter().filter(|s| !small(s)).count();
        let skipped_over = o.before_segments.iter().filter(|s| small(s) && !o.removed.contains(&s.0)).count();
        if skipped_large > 0 {
            rep.count("selection:some_segment_above_target_skipped");
        }
        if skipped_over > 0 {
            rep.count("selection:more_small_segments_than_max_per_compaction");
        }
        if l.ckpt > 0 {
            rep.count("layouts_with_checkpoint");
        }
        if l.ttl_ms % 1000 != 0 {
            rep.count("ttl:sub-second");
            if l.ttl_ms > 1000 {
                rep.count("ttl:sub-second:above-one-second");
            }
        }
        // tombstone-age classes and other content classes of this layout
        let mut ages = BTreeSet::new();
        let mut shapes = BTreeSet::new();
        let mut per_key: BTreeMap<&str, Vec<&U>> = BTreeMap::new();
        l.segs.iter().flat_map(|s| &s.ups).for_each(|u| per_key.entry(&u.key).or_default().push(u));
        for us in per_key.values() {
            let tys: BTreeSet<_> = us.iter().map(|u| u.ty()).collect();
            let rids: BTreeSet<_> = us.iter().map(|u| u.rid).collect();
            let ts: BTreeSet<_> = us.iter().map(|u| u.t).collect();
            shapes.insert((tys, rids.len().min(3), ts.len() < us.len()));
            if rids.len() > 1 && ts.len() < us.len() {
                rep.count("keys_with_equal_times_from_different_replicas");
            }
            for u in us.iter().filter(|u| u.k == UK::Tomb) {
                let tm = l.tmap();
                let age = match l.clock {
                    Clock::Manual { cutoff } => format!("manual:{:?}", (tm.0 + u.t * tm.1).cmp(&cutoff)),
                    _ => format!("{}:{}", l.clock_class(), l.droppable(tm.0 + u.t * tm.1)),
                };
                rep.count(&format!("tombstone_age:{}", age));
                ages.insert(age);
                if let Some(c) = sub_second_age_class(l, tm.0 + u.t * tm.1) {
                    rep.count(&format!("tombstone_age:sub-second-ttl:{}", c));
                    ages.insert(format!("sub-second-ttl:{}:{}", c, l.ttl_ms > 1000));
                }
            }
        }
        rep.distinct(&("layout", skipped_large.min(2), skipped_over.min(2), l.ckpt > 0, ages, shapes, o.removed.len()));
    }
    if want_sample {
        rep.sample(json!({"layout": l, "segments_before": o.before_segments, "removed": o.removed, "divergence": o.kind.as_ref().map(|k| &k.0)}));
    }
    let Some((kind, _, _)) = o.kind.clone() else {
        if let (true, Some((mut rng, thorough))) = (o.compacted, corrupt) {
            corrupt_get_cases(rep, l, &o, &mut rng, thorough).await;
        }
        return;
    };
    // shrink while the same kind of divergence persists
    let (mut cur, mut cur_o) = (l.clone(), o);
    let mut progress = true;
    while progress {
        progress = false;
        for c in smaller(&cur) {
            if let Ok(o2) = eval_layout(&c).await {
                if o2.kind.as_ref().map(|k| &k.0) == Some(&kind) {
                    cur = c;
                    cur_o = o2;
                    progress = true;
                    break;
                }
            }
        }
    }
    let (_, key, detail) = cur_o.kind.clone().expect("kept by the shrinker");
    let class = if key.is_empty() { "any".to_string() } else { layout_class(&cur, &cur_o, &key, &kind) };
    // two tombstones that meet inside the compaction are a plain tie-break divergence
    let kind = if kind == "older-tombstone-resurfaced" && class.ends_with("all-compacted") { "value-changed".to_string() } else { kind };
    rep.violation(format!("C13|compact|{}|{}", kind, class), detail, json!({"mode": "layout", "layout": cur}));
}

fn gen_update(rng: &mut Rng, nkeys: usize, nrep: u64, used: &mut BTreeSet<(String, u64, u64)>) -> U {
    for tries in 0u64.. {
        let lww = rng.gen_bool(0.55); // a key keeps its type: mixed-type merges are C07's business
        let key = format!("{}{}", if lww { "s" } else { "h" }, rng.gen_range(0..(nkeys + 1) / 2));
        let rid = rng.gen_range(1..=nrep);
        let t = 4 * rng.gen_range(1..=10 + tries) + 3; // few slots: equal times across replicas are common
        if !used.insert((key.clone(), rid, t)) {
            continue; // a replica issues a stamp once
        }
        let f = |rng: &mut Rng| format!("f{}", rng.gen_range(0..3));
        let k = match if lww { rng.gen_range(0..6) } else { rng.gen_range(6..10) } {
            0..=3 => UK::Val(format!("v{}r{}", t, rid)),
            4..=5 => UK::Tomb,
            6..=8 => {
                let mut fs: Vec<(String, String)> = (0..rng.gen_range(1..=3)).map(|_| (f(rng), format!("h{}r{}", t, rid))).collect();
                fs.sort();
                fs.dedup_by(|a, b| a.0 == b.0);
                UK::HSet(fs)
            }
            _ => UK::HDel(f(rng)),
        };
        return U { key, rid, t, k };
    }
    unreachable!()
}

fn gen_layout(rng: &mut Rng) -> Layout {
    let nseg = rng.gen_range(2..=10);
    let nkeys = rng.gen_range(1..=4);
    let nrep = rng.gen_range(2..=3);
    let mut used = BTreeSet::new();
    let segs: Vec<Seg> = (0..nseg).map(|_| Seg { ups: (0..rng.gen_range(1..=4)).map(|_| gen_update(rng, nkeys, nrep, &mut used)).collect(), large: rng.gen_bool(0.2) }).collect();
    let tombs: Vec<u64> = segs.iter().flat_map(|s| &s.ups).filter(|u| u.k == UK::Tomb).map(|u| u.t).collect();
    let tt = tombs.choose(rng).copied().unwrap_or(23);
    let clock = match rng.gen_range(0..10) {
        0..=5 => Clock::Manual { cutoff: *[0, tt - 1, tt, tt + 1, tt + 1, 1000].choose(rng).expect("non-empty") },
        6..=7 => Clock::ProdLogical,
        _ => Clock::ProdWall { pivot: *[0, tt, tt + 1, 100].choose(rng).expect("non-empty") },
    };
    let ttl_ms = if matches!(clock, Clock::Manual { .. }) { *[0u64, 100, 5000].choose(rng).expect("non-empty") } else { HOUR_MS };
    Layout { ckpt: if rng.gen_bool(0.25) { rng.gen_range(1..nseg) } else { 0 }, segs, target: *[2048usize, 2048, 450, 1 << 20].choose(rng).expect("non-empty"), max_per: *[2usize, 3, 5, 10].choose(rng).expect("non-empty"), ttl_ms, clock, residue: rng.gen_bool(0.2) }
}

/// Corner layouts that every run evaluates (ties, disjoint hash fields, tombstones around the cutoff with the older
/// value inside / outside the compaction, both clocks).
fn directed_layouts() -> Vec<Layout> {
    let u = |key: &str, rid: u64, t: u64, k: UK| U { key: key.into(), rid, t, k };
    let seg = |ups: Vec<U>| Seg { ups, large: false };
    let big = |ups: Vec<U>| Seg { ups, large: true };
    let val = |s: &str| UK::Val(s.into());
    let hs = |f: &str, v: &str| UK::HSet(vec![(f.into(), v.into())]);
    let base = |segs: Vec<Seg>, clock: Clock| Layout { segs, ckpt: 0, target: 2048, max_per: 10, ttl_ms: if matches!(clock, Clock::Manual { .. }) { 100 } else { HOUR_MS }, clock, residue: false };
    let never = Clock::Manual { cutoff: 0 };
    let mut v = vec![];
    for (r0, r1) in [(1, 2), (2, 1)] {
        v.push(base(vec![seg(vec![u("k", r0, 7, val("a"))]), seg(vec![u("k", r1, 7, val("b"))])], never.clone()));
        v.push(base(vec![seg(vec![u("k", r0, 7, hs("f1", "a"))]), seg(vec![u("k", r1, 7, hs("f2", "b"))])], never.clone()));
        v.push(base(vec![seg(vec![u("k", r0, 7, hs("f1", "a"))]), seg(vec![u("k", r1, 11, hs("f2", "b"))])], never.clone()));
        // first-seen tombstone at an equal time, old enough to be dropped: the live value of the other replica goes with it
        v.push(base(vec![seg(vec![u("k", r0, 7, UK::Tomb)]), seg(vec![u("k", r1, 7, val("b"))])], Clock::Manual { cutoff: 1000 }));
        v.push(base(vec![seg(vec![u("k", r0, 7, val("a"))]), seg(vec![u("k", r1, 7, UK::Tomb)])], never.clone()));
        v.push(base(vec![seg(vec![u("k", r0, 11, val("a"))]), seg(vec![u("k", r1, 7, val("b"))])], never.clone()));
    }
    let other = || seg(vec![u("o", 1, 7, val("x"))]);
    // a tie whose first-seen side is an expired tombstone, with an older tombstone outside the compaction
    v.push(base(vec![seg(vec![u("k", 1, 11, UK::Tomb), u("k", 2, 11, val("b"))]), big(vec![u("k", 1, 7, UK::Tomb)]), other()], Clock::Manual { cutoff: 1000 }));
    v.push(Layout { ckpt: 1, ..base(vec![seg(vec![u("k", 1, 7, UK::Tomb)]), seg(vec![u("k", 1, 11, UK::Tomb), u("k", 2, 11, val("b"))]), other()], Clock::Manual { cutoff: 1000 }) });
    for cutoff in [0, 14, 15, 16, 1000] {
        let c = Clock::Manual { cutoff };
        // older value compacted together with the tombstone / in a segment above the target / in a checkpoint
        v.push(base(vec![seg(vec![u("k", 1, 7, val("old"))]), seg(vec![u("k", 2, 15, UK::Tomb)]), other()], c.clone()));
        v.push(base(vec![big(vec![u("k", 1, 7, val("old"))]), seg(vec![u("k", 2, 15, UK::Tomb)]), other()], c.clone()));
        v.push(Layout { ckpt: 1, ..base(vec![seg(vec![u("k", 1, 7, val("old"))]), seg(vec![u("k", 2, 15, UK::Tomb)]), other()], c.clone()) });
        v.push(Layout { max_per: 2, ..base(vec![seg(vec![u("k", 2, 15, UK::Tomb)]), other(), seg(vec![u("k", 1, 7, val("old"))])], c.clone()) });
        // an older tombstone outside the compaction
        v.push(base(vec![big(vec![u("k", 1, 7, UK::Tomb)]), seg(vec![u("k", 2, 15, UK::Tomb)]), other()], c.clone()));
        v.push(Layout { ckpt: 1, ..base(vec![seg(vec![u("k", 1, 7, UK::Tomb)]), seg(vec![u("k", 2, 15, UK::Tomb)]), other()], c) });
    }
    for c in [Clock::ProdLogical, Clock::ProdWall { pivot: 0 }, Clock::ProdWall { pivot: 15 }, Clock::ProdWall { pivot: 16 }, Clock::ProdWall { pivot: 100 }] {
        v.push(base(vec![seg(vec![u("k", 1, 7, val("old"))]), seg(vec![u("k", 2, 15, UK::Tomb)]), other()], c.clone()));
        v.push(base(vec![big(vec![u("k", 1, 7, val("old"))]), seg(vec![u("k", 2, 15, UK::Tomb)]), other()], c.clone()));
        // the older value in a checkpoint / in a segment beyond the per-pass limit, with the production clock
        v.push(Layout { ckpt: 1, ..base(vec![seg(vec![u("k", 1, 7, val("old"))]), seg(vec![u("k", 2, 15, UK::Tomb)]), other()], c.clone()) });
        v.push(Layout { max_per: 2, ..base(vec![seg(vec![u("k", 2, 15, UK::Tomb)]), other(), seg(vec![u("k", 1, 7, val("old"))])], c) });
    }
    // TTLs with a sub-second part, stamps on the millisecond scale of the manual clock: the age of the tombstone is
    // just below / at / just above the configured TTL and just below / at / just above its whole-second truncation
    let tt = SUB_SECOND_SHIFT + 15;
    let far = || seg(vec![u("o", 1, tt - 8, val("x"))]);
    for ttl_ms in [1500u64, 250, 999] {
        let frac = ttl_ms % 1000;
        for cutoff in [tt - 1, tt, tt + 1, tt - frac - 1, tt - frac, tt - frac + 1] {
            let sub = |segs: Vec<Seg>| Layout { ttl_ms, ..base(segs, Clock::Manual { cutoff }) };
            v.push(sub(vec![seg(vec![u("k", 1, tt - 8, val("old"))]), seg(vec![u("k", 2, tt, UK::Tomb)]), far()]));
            v.push(sub(vec![seg(vec![u("k", 2, tt, UK::Tomb)]), far()]));
        }
    }
    v
}

/// Logical times of the sub-second-TTL layouts are shifted so that there is room below them for every cutoff.
const SUB_SECOND_SHIFT: u64 = 20_000;

/// A random layout under the manual clock with a TTL that is not a whole number of seconds and a cutoff that puts
/// one of its tombstones next to the configured TTL or next to the TTL without its sub-second part.
fn gen_layout_sub_second(rng: &mut Rng) -> Layout {
    let mut l = gen_layout(rng);
    l.segs.iter_mut().flat_map(|s| &mut s.ups).for_each(|u| u.t += SUB_SECOND_SHIFT);
    l.ttl_ms = *[1500u64, 250, 999, 1001, 2750, 60_500, 1].choose(rng).expect("non-empty");
    let frac = l.ttl_ms % 1000;
    let tombs: Vec<u64> = l.segs.iter().flat_map(|s| &s.ups).filter(|u| u.k == UK::Tomb).map(|u| u.t).collect();
    let tt = tombs.choose(rng).copied().unwrap_or(SUB_SECOND_SHIFT + 23);
    l.clock = Clock::Manual { cutoff: *[tt - 1, tt, tt + 1, tt - frac - 1, tt - frac, tt - frac + 1, tt - frac / 2, 0, tt + 5000].choose(rng).expect("non-empty") };
    if rng.gen_bool(0.7) {
        // only a compaction that covers all the data may drop a tombstone at all
        l.ckpt = 0;
        l.max_per = 10;
        l.target = 1 << 20;
        l.segs.iter_mut().for_each(|s| s.large = false);
    }
    l
}

// ------------------------------------------------------------------ interleavings of compact() and flush()

struct Sched {
    kind: Option<(String, String)>, // (divergence, detail)
    class: String,
    ops: String,
    trace: Vec<(u8, bool)>,
    unschedulable: Option<String>, // the gate could not order the two tasks: no verdict for this schedule
}

/// Run compact() and flush() concurrently on a copy of `image` under the schedule prefix, then recover.
async fn run_schedule(image: &Objs, before: &State, batch: &[U], prefix: Vec<u8>) -> Sched {
    let store = PlanStore::from_objects(image.clone());
    let mut pers = StreamingPersistence::with_clock(Arc::new(store.tag(1)), PFX.into(), 1, WriteBufferConfig::test(), SimulatedClock::new(0)).await.expect("construct");
    let deltas: Vec<ReplicationDelta> = batch.iter().map(|u| mk_delta(u, (0, 1))).collect();
    deltas.iter().for_each(|d| pers.push(d.clone()).expect("push"));
    store.arm(BTreeMap::new());
    store.set_gate(prefix);
    let marker = store.clone();
    let fl = async {
        let r = AssertUnwindSafe(pers.flush()).catch_unwind().await;
        marker.mark_done(1);
        r
    };
    // (virtual time: the timeout can only fire when both tasks sit idle on something that is not the store)
    let joined = tokio::time::timeout(Duration::from_secs(3600), futures::future::join(compact_with(&store, ccfg(2048, 2, 10, 1000), ManualTime(0)), fl)).await;
    if joined.is_err() {
        store.break_gate("the two tasks did not finish within an hour of virtual time (a task waits for something that is not a store operation)");
    }
    let (trace, broken) = store.take_gate();
    let (_, log) = store.take_log();
    let Some((rc, rf)) = joined.ok().filter(|_| broken.is_none()) else {
        return Sched { kind: None, class: String::new(), ops: String::new(), trace, unschedulable: Some(broken.unwrap_or_else(|| "gate broken".into())) };
    };
    // do the flush's window [first call, last call] and compaction's [manifest load, manifest swap] overlap?
    let span = |task: u8| (log.iter().position(|e| e.task == task), log.iter().rposition(|e| e.task == task));
    let swap = log.iter().position(|e| e.task == 0 && e.op == "rename");
    let class = match (span(0), span(1)) {
        ((Some(cl), Some(ce)), (Some(fl), Some(fe))) if fl < swap.unwrap_or(ce) && cl < fe => "flush-overlaps-compaction-load..swap",
        _ => "flush-outside-compaction-load..swap",
    }
    .to_string();
    let ops = log.iter().map(|e| format!("{}{}", ev_class(e), if e.op == "rename" && !e.applied { "=NotFound" } else { "" })).collect::<Vec<_>>().join(" ");
    let mut s = Sched { kind: None, class, ops, trace, unschedulable: None };
    let flushed = match (rc, rf) {
        (Err(p), _) => {
            s.kind = Some(("panic".into(), p));
            return s;
        }
        (_, Err(_)) => {
            s.kind = Some(("panic".into(), "panic in flush()".into()));
            return s;
        }
        (Ok(_), Ok(f)) => f.is_ok(),
    };
    // a flush that returned Ok must be there; one that returned Err may or may not have become durable
    let mut upper = before.clone();
    deltas.iter().for_each(|d| merge_into(&mut upper, d));
    let expected = if flushed { &upper } else { before };
    match recover_fold(&store.objects()).await {
        Err(e) => s.kind = Some((format!("recover-failed:{}", e), e)),
        Ok(after) => {
            let lost_new = flushed && deltas.iter().any(|d| !absorbs(after.get(&d.key), &d.value));
            let lost_old = before.iter().any(|(k, v)| !absorbs(after.get(k), v));
            let extra = after.iter().find(|(k, v)| !absorbs(upper.get(*k), v)).map(|(k, _)| k.clone());
            let kind = match (lost_new, lost_old, &extra) {
                (true, true, _) => "flushed-and-older-data-lost",
                (true, false, _) => "flushed-update-lost",
                (false, true, _) => "older-data-lost",
                (false, false, Some(_)) => "unexpected-content",
                _ => return s,
            };
            let k = extra.or_else(|| expected.keys().find(|k| !absorbs(after.get(*k), &expected[*k])).cloned()).expect("differs");
            s.kind = Some((kind.into(), format!("flush returned {}; key {}: expected (at least) {} but recovered {}", if flushed { "Ok" } else { "Err" }, k, show(expected.get(&k)), show(after.get(&k)))));
        }
    }
    s
}

/// All interleavings of the two tasks' store operations for one (layout, batch) pair, by depth-first backtracking
/// over the points where both tasks were waiting.
async fn interleave_set(rep: &mut Report, l: &Layout, batch: &[U], idx: u64) {
    let image = build_layout(l).await.objects();
    let before = match recover_fold(&image).await {
        Ok(b) => b,
        Err(e) => return rep.inconclusive(format!("interleaving layout does not recover: {}", e)),
    };
    rep.count("interleaving_sets");
    let mut prefix: Vec<u8> = vec![];
    let mut n = 0u64;
    loop {
        let s = run_schedule(&image, &before, batch, prefix.clone()).await;
        if let Some(why) = &s.unschedulable {
            // not a verdict on the system under test: the harness cannot enumerate this pair of tasks
            rep.count("interleaving_sets_not_enumerable");
            let msg = format!("interleavings of compact() and flush() could not be enumerated: {}", why);
            if !rep.inconclusive.contains(&msg) {
                rep.inconclusive(msg);
            }
            return;
        }
        n += 1;
        rep.evaluations += 1;
        rep.count("interleavings");
        let picks: Vec<u8> = s.trace.iter().map(|t| t.0).collect();
        rep.distinct(&("schedule", l.segs.len(), batch.len(), &picks));
        rep.count(&format!("schedules:{}", s.class));
        if n == 1 {
            rep.max("store_ops_compaction", picks.iter().filter(|p| **p == 0).count() as u64);
            rep.max("store_ops_flush", picks.iter().filter(|p| **p == 1).count() as u64);
            if idx < 2 {
                rep.sample(json!({"interleaving_layout": l, "flush_batch": batch, "first_schedule": picks}));
            }
        }
        if let Some((kind, detail)) = s.kind {
            rep.count("interleavings_diverging");
            rep.violation(format!("C13|compact+flush|{}|{}", kind, s.class), format!("{}; store calls in order: {}", detail, s.ops), json!({"mode": "interleave", "layout": l, "batch": batch, "schedule": picks}));
        }
        // backtrack: flip the last point where both were waiting and task 0 was taken
        let mut tr = s.trace;
        loop {
            match tr.pop() {
                None => {
                    rep.max("interleavings_per_set", n);
                    return;
                }
                Some((0, true)) => {
                    prefix = tr.iter().map(|t| t.0).collect();
                    prefix.push(1);
                    break;
                }
                _ => {}
            }
        }
    }
}

/// A layout on which sequential compaction is value-preserving (one replica, strictly increasing times, string
/// values) plus a flush batch with new keys and one newer value of an existing key.
fn gen_interleave(rng: &mut Rng) -> (Layout, Vec<U>) {
    let nseg = rng.gen_range(2..=4);
    let mut t = 3;
    let mut up = |rng: &mut Rng, key: String| {
        t += 4;
        U { key, rid: 1, t, k: if rng.gen_bool(0.15) { UK::Tomb } else { UK::Val(format!("v{}", t)) } }
    };
    let mut segs = vec![];
    for _ in 0..nseg {
        let mut ups = vec![];
        for _ in 0..rng.gen_range(1..=2) {
            let key = format!("k{}", rng.gen_range(0..3));
            ups.push(up(rng, key));
        }
        segs.push(Seg { ups, large: false });
    }
    let mut batch = vec![up(rng, "new0".into())];
    if rng.gen_bool(0.5) {
        let key = format!("k{}", rng.gen_range(0..3));
        batch.push(up(rng, key));
    }
    (Layout { segs, ckpt: 0, target: 2048, max_per: 10, ttl_ms: 1000, clock: Clock::Manual { cutoff: 0 }, residue: false }, batch)
}

async fn compact_body(rep: &mut Report, args: &Args) {
    if let Some(p) = &args.replay {
        let w = read_witness(p);
        let l: Layout = serde_json::from_value(w["layout"].clone()).expect("layout");
        if w["mode"] == "interleave" {
            let batch: Vec<U> = serde_json::from_value(w["batch"].clone()).expect("batch");
            let prefix: Vec<u8> = serde_json::from_value(w["schedule"].clone()).expect("schedule");
            let image = build_layout(&l).await.objects();
            let before = recover_fold(&image).await.expect("layout recovers");
            let s = run_schedule(&image, &before, &batch, prefix).await;
            rep.evaluations += 1;
            if let Some(why) = s.unschedulable {
                rep.inconclusive(format!("interleavings of compact() and flush() could not be enumerated: {}", why));
            } else if let Some((kind, detail)) = s.kind {
                rep.violation(format!("C13|compact+flush|{}|{}", kind, s.class), detail, w.clone());
            }
        } else if w["mode"] == "layout-corrupt-get" {
            match eval_layout(&l).await {
                Ok(o) => corrupt_get_case(rep, &l, &o, w["call"].as_u64().unwrap_or(0), w["bit"].as_u64().unwrap_or(0) as u32).await,
                Err(e) => rep.inconclusive(format!("layout could not be evaluated: {}", e)),
            }
        } else {
            layout_case(rep, &l, true, None).await;
        }
        return;
    }
    validate_store(rep, args.seed).await;
    let mine = |i: u64| i % args.shards as u64 == args.shard as u64;
    // corrupt-get cases: every directed layout, every `corrupt_every`-th random one (all of them in the thorough tier)
    let every = args.get_u64("corrupt_every", if args.thorough() { 1 } else { 4 }).max(1);
    let corrupt = |i: u64, on: bool| on.then(|| (rng_from(args.seed, 1_330_000 + i), args.thorough()));
    for (i, l) in directed_layouts().iter().enumerate() {
        if mine(i as u64) {
            rep.count("layouts_directed");
            layout_case(rep, l, false, corrupt(1_000_000 + i as u64, true)).await;
        }
    }
    // the compaction worker as the server wires it (StreamingIntegration::start_workers): the configured tombstone
    // TTL, target size and limits must reach the compactor it builds. Wall-scale stamps, TTLs of 7 days and 2 hours,
    // tombstones on both sides of the TTL, an older value of the deleted key in an earlier segment.
    if args.shard == 0 {
        integration_worker_cases(rep).await;
    }
    let layouts = args.get_u64("layouts", if args.thorough() { 160_000 } else { 8000 });
    for i in 0..layouts {
        if mine(i) {
            layout_case(rep, &gen_layout(&mut rng_from(args.seed, 1_300_000 + i)), i < 3, corrupt(i, (i / args.shards as u64) % every == 0)).await;
        }
    }
    let sub_second = args.get_u64("sub_second_layouts", if args.thorough() { 40_000 } else { 2000 });
    for i in 0..sub_second {
        if mine(i) {
            rep.count("layouts_sub_second_ttl");
            layout_case(rep, &gen_layout_sub_second(&mut rng_from(args.seed, 1_320_000 + i)), i < 1, corrupt(2_000_000 + i, (i / args.shards as u64) % (every * 2) == 0)).await;
        }
    }
    let sets = args.get_u64("sets", if args.thorough() { 4800 } else { 200 });
    for i in 0..sets {
        if mine(i) {
            let (l, batch) = gen_interleave(&mut rng_from(args.seed, 1_310_000 + i));
            // only layouts on which compaction alone is value-preserving: the schedule is the variable here
            match eval_layout(&l).await {
                Ok(o) if o.compacted && o.kind.is_none() => interleave_set(rep, &l, &batch, i).await,
                _ => rep.count("interleaving_sets_skipped"),
            }
        }
    }
    rep.exhaustive = true; // the interleaving space of every explored (layout, batch) pair is enumerated completely
    let counters = rep.counters.clone();
    let c = |k: &str| counters.get(k).copied().unwrap_or(0);
    for (k, why) in [
        ("layouts_compacted", "no layout was compacted"),
        ("selection:some_segment_above_target_skipped", "no compaction skipped a segment above the target size"),
        ("selection:more_small_segments_than_max_per_compaction", "no compaction left small segments behind"),
        ("layouts_with_checkpoint", "no compacted layout had a checkpoint"),
        ("keys_with_equal_times_from_different_replicas", "no key had equal times from different replicas"),
        ("tombstones_dropped_legitimately", "no tombstone older than the TTL was dropped"),
        ("tombstone_age:manual:Less", "no tombstone older than the manual cutoff"),
        ("tombstone_age:manual:Equal", "no tombstone exactly at the manual cutoff"),
        ("tombstone_age:manual:Greater", "no tombstone younger than the manual cutoff"),
        ("tombstone_age:production-clock+logical-stamps:false", "no tombstone under the production clock with logical stamps"),
        ("tombstone_age:production-clock+wall-scale-stamps:true", "no old tombstone under the production clock"),
        ("tombstone_age:production-clock+wall-scale-stamps:false", "no young tombstone under the production clock"),
        ("interleavings", "no interleaving was executed"),
        ("ttl:sub-second", "no compacted layout had a TTL with a sub-second part"),
        ("ttl:sub-second:above-one-second", "no compacted layout had a TTL above one second with a sub-second part"),
        ("tombstone_age:sub-second-ttl:older-than-ttl", "sub-second TTL: no tombstone older than the TTL"),
        ("tombstone_age:sub-second-ttl:at-ttl", "sub-second TTL: no tombstone exactly as old as the TTL"),
        ("tombstone_age:sub-second-ttl:between-truncated-and-configured-ttl", "sub-second TTL: no tombstone with an age between the whole seconds of the TTL and the TTL"),
        ("tombstone_age:sub-second-ttl:at-truncated-ttl", "sub-second TTL: no tombstone exactly as old as the whole seconds of the TTL"),
        ("tombstone_age:sub-second-ttl:younger-than-truncated-ttl", "sub-second TTL: no tombstone younger than the whole seconds of the TTL"),
        ("fault:corrupt-get", "no corrupt get was injected into a compaction"),
        ("fault:corrupt-get:segment-header", "no corrupt get damaged the header of an input segment"),
        ("fault:corrupt-get:segment-records", "no corrupt get damaged the record area of an input segment"),
        ("fault:corrupt-get:segment-footer", "no corrupt get damaged the footer of an input segment"),
        ("corrupt_get:damage:open-fails", "no corrupt get produced a segment that cannot be opened"),
        ("corrupt_get:damage:crc-mismatch", "no corrupt get produced a segment that opens but fails its checksum"),
        ("corrupt_get:compaction_ok", "no compaction went ahead after a corrupt get (>= 3 input segments needed)"),
    ] {
        if c(k) == 0 && (args.shards == 1 || !k.starts_with("tombstone_age:") || k.starts_with("tombstone_age:sub-second")) {
            rep.inconclusive(why);
        }
    }
    if c("max:interleavings_per_set") < 100 && c("interleaving_sets") > 0 {
        rep.inconclusive("interleaving sets are implausibly small (gate not effective)");
    }
}

pub fn compact_leg(args: &Args) {
    let mut rep = Report::new("C13", "compact");
    if let Err(p) = guard(|| runtime().block_on(compact_body(&mut rep, args))) {
        rep.inconclusive(format!("harness panic: {}", p));
    }
    rep.finish(args);
}
