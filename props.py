"""Per-property plan: legs (sub-command × build flavour × shards), evidence rule text, level, assumptions."""

def leg(name, sub, flavour="dbg", quick=1, thorough=16, tiers=("quick", "thorough"), **kw):
    d = dict(name=name, sub=sub, flavour=flavour, shards=dict(quick=quick, thorough=thorough), tiers=tiers)
    d.update(kw)
    return d


COMMON_ASSUME = [
    "harness builds /repo as a path dependency with the harness's own cargo profiles (dev: debug-assertions+overflow-checks; release: opt-level 2, no debug assertions, panic=unwind); /repo's [profile.release] panic=abort is emulated by treating a caught panic on a server path as a crash",
    "verdict is about the executions produced by this run only",
]

PROPS = {
    "C15": dict(
        level="exploration",
        rule="case = one byte string (bounded-exhaustive over the alphabet '+-:$*019\\r\\na' up to the stated length, the header-shaped grid type×sign×digits×terminator×tail, seeded random strings and mutated valid frames), one valid/damaged stream with all its 1- and 2-point fragmentations, or one value emitted by a real command and pushed through an encoder; distinct_nontrivial = distinct (parser, type byte, length-field class, outcome kind, length bucket) tuples + distinct reply classes (command name, reply kind) + distinct tree shapes, counted by hashing",
        exhaustive_note="exhaustive: true refers to the enumerated alphabet strings up to enumerated_lmax and the header-shaped grid only",
        assumptions=COMMON_ASSUME + [
            "allocation is measured by a counting #[global_allocator] with thread-local windows; bound checked: single request <= 64*|input|+4096",
            "the independent strict RESP2 decoder in harness/src/myresp.rs defines 'well-formed'",
            "huge-length and deep-nesting inputs run one child process per case on a 2 MiB thread stack (tokio worker default)",
        ],
        legs=[
            leg("parse-dbg", "c15-parse", "dbg", quick=4, thorough=16),
            leg("parse-rel", "c15-parse", "rel", quick=4, thorough=16),
            leg("frag", "c15-frag", "rel", quick=2, thorough=16),
            leg("reply", "c15-reply", "rel", quick=1, thorough=4),
            leg("huge", "c15-huge", "rel", quick=1, thorough=2),
        ],
    ),
}
