"""Per-property plan: legs (sub-command × build flavour × shards), evidence rule text, level, assumptions."""

def leg(name, sub, flavour="dbg", quick=1, thorough=16, tiers=("quick", "thorough"), **kw):
    d = dict(name=name, sub=sub, flavour=flavour, shards=dict(quick=quick, thorough=thorough), tiers=tiers)
    d.update(kw)
    return d


COMMON_ASSUME = [
    "harness builds /repo as a path dependency with the harness's own cargo profiles (dev: debug-assertions+overflow-checks; release: opt-level 2, no debug assertions, panic=unwind); /repo's [profile.release] panic=abort is emulated by treating a caught panic on a server path as a crash",
    "verdict is about the executions produced by this run only",
]

PROPS = {
    "C15": dict(
        level="exploration",
        technique="runtime monitor: bounded-exhaustive + random inputs against both decoders under catch_unwind, a counting allocator and an independent strict RESP decoder; fragment-vs-whole replay; replies of real commands re-decoded; child-process abort detection",
        level_text="Every string over the RESP grammar alphabet up to length 6 (quick) / 7 (thorough), a header-shaped grid with negative/huge/overflowing lengths, random and mutated frames are run through RespCodec::parse and RespParser::parse in debug and release builds while monitors watch for panics, consumed-count errors, single allocations above 64*|input|+4 KiB, disagreement with an independent decoder on well-formed frames and prefix instability; valid and damaged streams are replayed under every 1- and 2-point fragmentation; replies produced by real commands (including client bytes with CR/LF reflected into errors) are pushed through every encoder, incl. the connection's via hook H1, and re-decoded. Held on the executions listed in the evidence, nothing more.",
        level_note="trusts the harness's strict RESP2 decoder as the definition of well-formed, the counting allocator for allocation sizes, and catch_unwind/child exit status for crashes; Lua, ACL and TLS paths are not part of this check",
        rule="case = one byte string (bounded-exhaustive over the alphabet '+-:$*019\\r\\na' up to the stated length, the header-shaped grid type×sign×digits×terminator×tail, seeded random strings and mutated valid frames), one valid/damaged stream with all its 1- and 2-point fragmentations, or one value emitted by a real command and pushed through an encoder; distinct_nontrivial = distinct (parser, type byte, length-field class, outcome kind, length bucket) tuples + distinct reply classes (command name, reply kind) + distinct tree shapes, counted by hashing",
        exhaustive_note="exhaustive: true refers to the enumerated alphabet strings up to enumerated_lmax and the header-shaped grid only",
        assumptions=COMMON_ASSUME + [
            "allocation is measured by a counting #[global_allocator] with thread-local windows; bound checked: single request <= 64*|input|+4096",
            "the independent strict RESP2 decoder in harness/src/myresp.rs defines 'well-formed'",
            "huge-length and deep-nesting inputs run one child process per case on a 2 MiB thread stack (tokio worker default)",
        ],
        legs=[
            leg("parse-dbg", "c15-parse", "dbg", quick=4, thorough=16),
            leg("parse-rel", "c15-parse", "rel", quick=4, thorough=16),
            leg("frag", "c15-frag", "rel", quick=2, thorough=16),
            leg("reply", "c15-reply", "rel", quick=1, thorough=4),
            leg("huge", "c15-huge", "rel", quick=1, thorough=2),
        ],
    ),
}
