"""Per-property plan: legs (sub-command × build flavour × shards), evidence rule text, level, assumptions."""

def leg(name, sub, flavour="dbg", quick=1, thorough=16, tiers=("quick", "thorough"), **kw):
    d = dict(name=name, sub=sub, flavour=flavour, shards=dict(quick=quick, thorough=thorough), tiers=tiers)
    d.update(kw)
    return d


COMMON_ASSUME = [
    "harness builds /repo as a path dependency with the harness's own cargo profiles (dev: debug-assertions+overflow-checks; release: opt-level 2, no debug assertions, panic=unwind); /repo's [profile.release] panic=abort is emulated by treating a caught panic on a server path as a crash",
    "verdict is about the executions produced by this run only",
]

PROPS = {
    "C01": dict(
        level="exploration",
        technique="runtime monitor: generated command sequences with clock advances run on the real CommandExecutor (through the production RESP decoder and command parser) in lock-step with an independent Redis reference model; reply and full visible keyspace compared after every step; deterministic shrinking",
        level_text="Seeded sequences of 1-60 client commands over 4 keys (strings, counters, keys/expiry, lists, sets, hashes, sorted sets; boundary integers/indices/floats, every option combination, duplicate members, wrong arity) interleaved with clock advances that land on, just before and just after deadlines (active, lazy and TTL-manager expiry paths) are executed on a fresh CommandExecutor and on an independent model of Redis 7 semantics written from Redis behaviour. After every command the reply must satisfy the model's expectation and the visible keyspace (KEYS, TYPE, full value, PTTL through the public command set) must equal the model's. Three quarters of the sequences use arguments Redis accepts ('clean', so they run deep into the state space), one quarter is hostile. The first divergence of a sequence is shrunk and reported with the model branch that applies. A second leg runs string/key sequences through a one-shard ShardedActorState with a manual clock, serving plain GET/SET through the generic, fast, pooled or batch entry path (often right after a clock advance), against the same model.",
        level_note="the reference model (harness/src/model.rs) is the stand-in for Redis - no Redis binary exists in the sandbox; comparisons that are deliberately loose are: unordered replies as multisets, SPOP/RANDOMKEY as 'a member / a live key' with the model following the server's choice, floats by value (1e-9 relative), error replies by class, and when two independent faults are present at once (bad argument and wrong-typed key) either error is accepted; bitmaps, SORT, SCAN cursors, OBJECT/DEBUG/CONFIG are outside the model (covered for 'changes nothing on failure' by C17)",
        rule="case = one command sequence with clock advances; distinct_nontrivial = distinct (command + option keywords, reply kind) pairs observed, counted by hashing; ops = commands compared (each with a full keyspace comparison)",
        assumptions=COMMON_ASSUME + ["time is driven through CommandExecutor::set_time / update_time_readonly / evict_expired_direct with a fixed epoch; release flavour (debug assertions of the repo are not part of this property)"],
        legs=[
            leg("model", "c01-model", "rel", quick=6, thorough=16),
            leg("sharded", "c01-sharded", "rel", quick=3, thorough=16),
        ],
    ),
    "C02": dict(
        level="exploration",
        technique="runtime monitor: concurrent client histories recorded at the API boundary of the real ShardedActorState on a multi-thread runtime (seeded delays at hook H2 hand-off sites, cancelled calls, tiny response pool), checked offline per key with a Wing-Gong/Lowe linearizability search against a sequential model; ThreadSanitizer and Miri builds of the same workload",
        level_text="2-8 client tasks on a 2/4/8-worker tokio runtime issue 6-24 operations each on 1-4 keys of a ShardedActorState with 1, 2, 4 or 16 shards: GET/SET through the generic, fast, pooled and batch entry points, INCR, APPEND, DEL, GETSET, SETNX, LPUSH/LPOP/LLEN and an EVAL read-modify-write script, with unique written values so every read identifies its write. The response pool holds 1-2 slots (constant reuse), hook H2 injects seeded thread yields / spins / micro-sleeps between the send, await, reply and release steps (site hit counts are reported), and 8% of the calls are abandoned after a few scheduler turns (such operations stay open in the history). Call and return stamps come from one atomic counter taken before the call and after the reply. Each key's sub-history (<= 63 operations) is searched for a linearization that respects real time (memoised on linearized-set x state); a popped value that was never pushed to that key is reported separately. The same binary is rebuilt with -Zsanitizer=thread (-Zbuild-std) and a small instance runs under Miri (thorough).",
        level_note="schedules are sampled (OS + tokio + injected delays), not enumerated; a checker timeout (3M steps) is counted, never a violation, and more than 10% timeouts make the run inconclusive; multi-key atomicity is not claimed by the property; histories are not replayable by seed: the witness is the recorded history, re-judged offline by --replay; sanitizer legs build without Lua",
        rule="case = one concurrent history (one server instance, one runtime); distinct_nontrivial = distinct linearization witnesses (sequence of (client, operation kind)) found for key sub-histories that contained overlapping operations of different clients; counters give operations, overlapping pairs, cancelled calls, per-path counts and H2 site hits",
        assumptions=COMMON_ASSUME + ["stamps from one process-wide AtomicU64 (SeqCst)", "TSan: any report (exit code 66) is attributed to the first /repo/src frame; reports in uninstrumented dependencies would show as no-repo-frame"],
        legs=[
            leg("lin", "c02-lin", "rel", quick=4, thorough=16),
            leg("lin-tsan", "c02-lin", "tsan", quick=1, thorough=8, args={"histories": 150}, env={"TSAN_OPTIONS": "halt_on_error=0 exitcode=66 report_signal_unsafe=0"}, count_distinct=False),
            leg("lin-miri", "c02-lin", "miri", quick=0, thorough=4, tiers=("thorough",), args={"small": 1, "histories": 2}, count_distinct=False, timeout={"thorough": 3000}),
        ],
    ),
    "C03": dict(
        level="exploration",
        technique="runtime monitor: differential twins - the same operation sequence with the same per-operation entry path (generic / fast / pooled / batch) and the same manual clock on a 1-shard and an N-shard ShardedActorState; replies and the full visible keyspace compared after every step",
        level_text="Sequences of 3-50 operations over 10 key names (hash-tagged, short, long) mixing plain GET/SET through every entry point of ShardedActorState (execute, fast_get/fast_set, pooled_fast_get/set, fast_batch_get/set_pipeline, also as multi-key batches) with the whole C01 command set on the same keys, multi-key commands (MGET/MSET/MSETNX/DEL/UNLINK/EXISTS with duplicates), two-key commands (RENAME/RENAMENX/RPOPLPUSH/LMOVE), keyspace-wide commands (KEYS, DBSIZE, FLUSHALL, full SCAN walks with COUNT 3 and MATCH) and clock advances are run on twins with 1 and N in {2,3,4,16} shards driven by one manual clock. Each reply (unordered replies as multisets) and, after every step, the visible keyspace (KEYS, TYPE, value, PTTL through the generic path; a key listed twice counts) must be identical; the first divergent step is shrunk and named.",
        level_note="SPOP and RANDOMKEY are not generated (their choice legitimately differs between two instances); the connection-level fast path and batch collectors cannot engage on the pinned tree (see C04), so path mixing is driven at the ShardedActorState API where those paths are public; the per-step snapshot uses generic commands that fan out to all shards",
        rule="case = one operation sequence on one (1, N) twin pair; distinct_nontrivial = distinct (command, entry path, reply kind) triples observed; ops = operations compared (each with a keyspace comparison)",
        assumptions=COMMON_ASSUME + ["both twins share one ManualTime clock (TimeSource trait), current-thread runtime"],
        legs=[leg("twin", "c03-twin", "rel", quick=4, thorough=16)],
    ),
    "C04": dict(
        level="exploration",
        technique="runtime monitor: production connection handler (hook H1) driven over a scripted stream with chosen read segmentation; replies decoded by an independent RESP decoder and compared with a one-command-at-a-time twin; malformed-frame corpus watched for silence, hang, crash",
        level_text="Generated command streams (GET/SET runs around the batching threshold, mixed case, options, other commands, unknown commands, wrong arity, binary keys and values containing RESP syntax) are written to the unmodified OptimizedConnectionHandler through hook H1 under every 1-point and (for streams <= 64 bytes; sampled in quick) every 2-point segmentation, byte-by-byte, at frame boundaries, with 14 batching/read-size/shard configurations; the decoded reply sequence must equal, reply by reply, what a fresh twin server answers when the same commands are sent one at a time. A corpus of unambiguous protocol errors (after 0-3 valid commands, split at every byte) must yield the earlier replies unchanged followed by an error reply; a connection that stops answering, never returns to reading (logical step budget) or panics is a violation.",
        level_note="trusts the scripted stream (harness/src/conn.rs), the independent decoder, and that a fresh ShardedActorState is an identical twin; clock is the production clock, so TTL-bearing commands use large TTLs only; ACL/TLS off",
        rule="case = one (command stream, batching/read-size/shard config, segmentation) run compared with its one-at-a-time twin, or one (malformed frame, valid prefix, config, split point) run; distinct_nontrivial = distinct (GETs, SETs, other commands, segmentation class, min_pipeline_buffer, batch_threshold, shards) tuples + distinct (malformed kind, prefix length, split class, shards)",
        assumptions=COMMON_ASSUME + ["hang = handler did not return to an empty read within 200000 scheduler yields on a current-thread runtime (logical steps, not wall-clock)"],
        legs=[
            leg("pipeline", "c04-pipeline", "rel", quick=4, thorough=16),
            leg("malformed", "c04-malformed", "rel", quick=1, thorough=4),
        ],
    ),
    "C05": dict(
        level="exploration",
        technique="runtime monitor: two real connections (hook H1) on one server plus a twin server; second client's writes injected at every gap; EXEC results and keyspace compared with the twin's consecutive run; simultaneous-delivery pairs checked against both serial orders",
        level_text="Client A runs [WATCH] MULTI body EXEC|DISCARD through the production connection handler while client B's write (none / same value / change / delete / type change / other key / change-and-revert) is run to completion in a chosen gap (before WATCH, after WATCH, after MULTI, after each queued command); an observer connection snapshots the visible keyspace after every queued command (no effect before EXEC), around DISCARD / EXECABORT / nil EXEC (untouched), and compares watched keys' values WATCH-time vs EXEC-time (value based, all key types) to decide whether EXEC had to be nil; applied EXECs are compared element by element and keyspace-wise with a twin server that ran the queued commands consecutively. The matrix watched-type x B-op x gap x DISCARD is enumerated completely; bodies (22 commands incl. failing, unknown, arity, nested MULTI, WATCH inside) are random. A second leg delivers A's EXEC and B's command/EXEC at the same instant and requires the observed results to equal serial order A;B or B;A computed on twins.",
        level_note="trusts the twin construction (fresh ShardedActorState + same preload + B's op = same pre-EXEC state), the scripted stream, and the public protocol reads used as snapshots; key expiry is not exercised (production clock)",
        rule="case = one transaction scenario (shards, watch set, body, DISCARD?, B-op kind, B key, gap) or one simultaneous pair (A body, B unit); distinct_nontrivial = distinct (watch count, watched types, B-op, B key type, gap class, discard, body length) tuples + distinct body command-kind sequences + distinct (A body, B unit, shards) pairs",
        assumptions=COMMON_ASSUME + ["simultaneous delivery happens on a current-thread tokio runtime: the interleaving inside EXEC is the one the production handlers produce there, deterministically"],
        legs=[
            leg("txn", "c05-txn", "rel", quick=2, thorough=16),
            leg("atomic", "c05-atomic", "rel", quick=2, thorough=8),
        ],
    ),
    "C16": dict(
        level="exploration",
        technique="runtime monitor: differential execution - the same frame through both RESP decoders and both command parsers (Ok/Err, Debug rendering, error text, panics); the same command sent directly and through EVAL redis.call / redis.pcall on twin executors (reply modulo the RESP-Lua-RESP conversion, visible keyspace)",
        level_text="Command names and option keywords are scraped at run time from the two parser sources and the Lua bridge (for input generation only). Parser leg: per name, every frame over the palette {a, 1, -1} plus that name's keywords is enumerated up to the largest length with <= 60k frames, then random frames add random letter case, arities 0..8, numeric arguments at and beyond i64/isize/u64 limits, empty and non-UTF-8 arguments, integer and nil elements; each frame is decoded by RespParser and RespCodec and parsed by Command::from_resp and Command::from_resp_zero_copy - any Ok/Err disagreement, different Debug rendering, different error text or panic is a violation. Script leg: every command the direct path accepts, in 3 keyspace states, is executed directly and through EVAL 'return redis.call/pcall(ARGV...)' on twin executors; the reply after the documented conversion and the visible keyspace must agree.",
        level_note="the oracle is the disagreement itself (no model); both-error pairs in the script leg count as agreement without comparing texts; SPOP/RANDOMKEY/INFO replies are not compared, set/hash/KEYS/SCAN replies as multisets; connection-, transaction- and scripting-control commands are excluded from the script leg; needs the lua feature",
        rule="case = one RESP frame through both parsers, or one (argv, keyspace state, call|pcall) pair run directly and scripted; distinct_nontrivial = distinct (name, arity, option keywords present, outcome kind per parser) tuples + distinct (name, token-class vector, state, mode, direct errored, scripted errored) tuples",
        assumptions=COMMON_ASSUME,
        legs=[
            leg("parsers", "c16-parsers", "rel", quick=2, thorough=16),
            leg("script", "c16-script", "rel", quick=2, thorough=16),
        ],
    ),
    "C17": dict(
        level="exploration",
        technique="runtime monitor: visible-keyspace snapshot (through the public command set) before and after every command that replies with an error or is classified read-only, over generated sequences of the full command set",
        level_text="Sequences mixing the C01 generator (hostile arguments, wrong types, overflow, bad indices, invalid option combinations) with the rest of the command set (bitmaps, SORT +- STORE, OBJECT/DEBUG/CONFIG, SCAN family, two-key commands with either operand at fault, multi-element commands whose k-th element is bad, EVAL scripts that fail after a successful redis.call, stubs) run on the real CommandExecutor; around every command whose top-level reply is an error, and every command for which Command::is_read_only() is true, the visible keyspace and all TTLs must be identical before and after. Violations are shrunk to a minimal sequence.",
        level_note="snapshot = KEYS *, TYPE, full read, PTTL per key at the same instant; lazy physical removal of already-expired keys is invisible and allowed; EXEC replies with an array and is C05's business",
        rule="case = one command sequence; every failing or read-only command inside it is one check (counters failing_commands_checked / read_only_commands_checked); distinct_nontrivial = distinct (command name, error class | read-only) pairs checked",
        assumptions=COMMON_ASSUME,
        legs=[leg("unchanged", "c17-unchanged", "rel", quick=4, thorough=16)],
    ),
    "C07": dict(
        level="exploration",
        technique="runtime monitor: CRDT values grown through the real replica APIs, then idempotence / commutativity / associativity of merge checked exhaustively over each pool on an observable projection",
        level_text="Values are grown, never fabricated: 2-4 ShardReplicaStates (record_write/delete/hash_write/hash_delete, deltas exchanged in arbitrary order with duplicates), 2-4 replicas owning one ReplicatedValue of any CRDT kind (with_crdt, crdt_mut, set, hash_set, delete, expiry, rf, ORSet remove/apply_remove, type changes), single-kind histories for every inner lattice (LwwRegister, per-field hash, GCounter, PNCounter, GSet, ORSet) and bare VectorClocks. Every snapshot seen joins the history's pool (deduplicated on the projection, <= 24/32 values); over each pool every value is checked for merge(a,a)=a, every unordered pair for merge(a,b)=merge(b,a) and every ordered triple for associativity, comparing the projection pi = kind, live value or tombstone, hash fields with per-field stamps, counter totals and entries, set members and tags, next tag, client accessors, expiry, vector clock, rf, outer stamp (time, replica) and the digest's value hash. Failing histories are shrunk.",
        level_note="'all values replicas can produce' is approximated by reachability from histories of 6-28 operations on <= 4 replicas; the laws are exhaustive only within each pool; an LwwRegister pair with identical stamp and different content is unreachable (counter reported, 0) so a '>=' for '>' mutation there is an equivalent mutant",
        rule="case = one instance of one law on pool values (one value for idempotence, one unordered pair for commutativity, one ordered triple for associativity); distinct_nontrivial = distinct classes of non-trivial pairs/triples: (site, kinds of the operands, outer-stamp order class per operand pair, tombstone pattern, lattice relation per operand pair)",
        exhaustive_note="exhaustive over all values / pairs / triples of each explored pool only",
        assumptions=COMMON_ASSUME,
        legs=[leg("laws", "c07-laws", "rel", quick=2, thorough=16)],
    ),
    "C18": dict(
        level="exploration",
        technique="runtime monitor: the same replicated state built independently several times (different insertion / merge orders, other processes) must give equal digests, one-observable near-miss pairs must give different ones; digest-driven sync between two replicas checked against merge(prior_a, prior_b) within the round bound",
        level_text="Digest leg: a state recipe A is built once, and A and B are rebuilt four more times in-process and twice in child processes (fresh HashMap seeds) through plain inserts, pre-sized and churned maps, apply_remote_delta merge histories and sync responses; the projection pi decides whether the pair is equal and in which observable it differs, and that verdict must match StateDigest::differs_from and divergent_buckets per differing key. The stream is an exhaustive grid of ~95 one-observable near-misses (expiry, vector clock, rf, kind, hash fields and stamps, counter entries, set members, OR-set tags, outer stamp...) x 5 key contexts (1 key; 40 single-occupancy; 12 keys in one depth-8 bucket; 30 keys at depth 3; 120 mixed) plus random equal / unequal pairs of 1-400 keys at depth 2,3,4,8. Sync leg: two prior states (shared keys, keys only on one side, concurrent values, kind mismatches, same value with different outer replica) are synced through MultiNodeSimulation (partition, heal, run_anti_entropy_sync) and through the AntiEntropyManager request/response API with limit in {1,2,5,1000}; after ceil(N/limit)+2 rounds every key of an initially divergent bucket must equal merge(own prior, peer prior) on both sides.",
        level_note="pi (harness) lists everything a client, a peer or a digest can observe; pairs differing only in an LWW register's inner stamp are counted, not judged; the code under test randomises per HashMap, so raw counters vary slightly between runs of one seed, the signatures do not",
        rule="case = one pair of state recipes (each side rebuilt 5 times in-process and in 2 child processes) or one two-replica sync scenario; distinct_nontrivial = distinct (pair class, pi verdict/observable, bucket occupancy, depth, build mode, value kinds, key-count class) + distinct (site, depth, limit, occupancy class, limit<scope, scope size class)",
        assumptions=COMMON_ASSUME,
        legs=[
            leg("digest", "c18-digest", "rel", quick=2, thorough=16),
            leg("sync", "c18-sync", "rel", quick=2, thorough=16),
        ],
    ),
    "C19": dict(
        level="exploration",
        technique="runtime monitor: the real HashRing built along every join/leave history of a membership compared key by key; routing tables of GossipRouter::new / from_config / GossipState::queue_deltas compared with get_replicas minus sender; placement fingerprint compared across insertion orders, threads and a child process",
        level_text="For each configuration (membership of 1-12 sparse or dense ids, rf 1-6 incl. > cluster size, vnodes 1/3/150) the ring is built along all insertion permutations (<= 5 members; sampled beyond), duplicate inputs, incremental joins, detours through larger memberships, leave-and-rejoin and churn; all histories must give the same ordered replica list for 2k keys (empty, long, binary-ish), of length min(rf, members) without duplicates; join/leave of up to 4 nodes may change a key's list only by gaining/losing that node (others keep their order). Every member (sometimes a non-member) routes 1-50-delta batches (repeated keys included) through GossipRouter::new, GossipRouter::from_config (dense grid n x rf x vnodes x sender built from ReplicationConfig::new_partitioned_cluster) and GossipState::queue_deltas: each delta must reach every owner other than the sender and nobody else. A fixed query set yields a placement fingerprint that must be identical across insertion orders, a second thread and a child process.",
        level_note="vnodes = 0 is treated as a degenerate configuration; equal ring positions (ties) cannot be produced through the public API with 64-bit SipHash positions; per-key replication-factor overrides are not wired into routing in the code under test",
        rule="case = one (membership, rf, vnodes) configuration with all its histories and routing checks, one cell of the from_config grid, or the fingerprint query set; distinct_nontrivial = distinct (check kind, members, rf, vnodes, history class) and (members, rf, vnodes, path, constructor, sender is member, ring changed under the router)",
        exhaustive_note="exhaustive over every subset of a dense and a sparse 5-id pool x rf {1,2,3,6} x vnodes {1,3,150} with all permutations",
        assumptions=COMMON_ASSUME,
        legs=[leg("place", "c19-place", "rel", quick=1, thorough=16)],
    ),
    "C20": dict(
        level="exploration",
        technique="runtime monitor: every built-in simulation/DST harness run twice in-process and in three fresh child processes per (harness, preset, seed); canonical dumps (operation trace, result, final state with maps in key order) compared byte for byte",
        level_text="For every publicly reachable harness and preset (ExecutorDSTHarness, List/Set/Hash/SortedSet/Transaction DST, GCounter/PNCounter/ORSet/VectorClock DST, MultiNodeSimulation broadcast and partitioned, run_partition_test topologies, DSTSimulation, RedisDSTSimulation, Simulation event queue, SimulationHarness/ScenarioBuilder, SimulatedConnection, PipelineSimulator, StreamingDSTHarness, CompactionDSTHarness, WalDSTHarness, buggify) and 16 (quick) / 400 (thorough) seeds, the harness is stepped so that its per-step last_op yields a full operation log, and a canonical dump of trace + result + final state is produced twice on a fresh thread and once in each of three fresh processes (fresh std RandomState and ahash keys, fresh allocator state; the probes are counted); any byte difference is a violation.",
        level_note="harnesses that expose only a result struct (WalDSTHarness, run_partition_test, PipelineSimulator) are compared on that alone; SimulatedRuntime/SimulatedNetwork are not reachable through public API; signatures are per harness, so a second root cause inside a harness that already diverges shows only in the divergent:* counters; a hash-order divergence is probabilistic per pair of runs (replay re-runs 6+10 times)",
        rule="case = one (harness, preset, seed, ops) compared across 2 in-process runs and 3 child processes; distinct_nontrivial = distinct (harness, preset, seed) triples whose dump has a non-empty trace",
        assumptions=COMMON_ASSUME + ["cross-process runs rely on per-process hash seeds differing: the run counts distinct RandomState/ahash probe values and reports them"],
        legs=[leg("repro", "c20-repro", "rel", quick=2, thorough=16)],
    ),
    "C10": dict(
        level="exploration",
        technique="runtime monitor: WAL files written by the real WalRotator/WalWriter, damaged exhaustively (every truncation length, every single-bit flip for small images) and by field-aware garbage / zero-fill / header games, recovered by a fresh WalRotator and checked against the append-time ground truth; truncate_before checked on rebuilt layouts",
        level_text="Layouts of 1-5 WAL files with 0-12 entries each (payloads 1-300 bytes, incl. payloads that contain a valid encoded entry or a file header; stamps monotone, shuffled, 16 interleaved clocks, extremes) are written through the real writer over the in-memory store. For small layouts every truncation length and every single-bit flip of every file is applied (exhaustive), larger ones get every header bit plus sampled payload positions; every field is also overwritten with garbage and zeros, zero-filled to the end, the file zero-extended, given a duplicated or foreign header. Recovery (recover_all_entries, recover_entries_after) must return only appended entries, bit-identical, in append order per file, every intact entry before the first damaged one, and all entries of undamaged files, without panicking. truncate_before(T) on rebuilt layouts (with and without an open writer, with a torn file) must keep the active file and every entry stamped later than T.",
        level_note="crash/corruption model = arbitrary damage to one file's bytes; ground truth recorded at append time; entries are created with the checksum the code's own validate() accepts",
        rule="case = one damaged image of one WAL file recovered by a fresh WalRotator, or one truncate_before(T) on a rebuilt layout; distinct_nontrivial = distinct (damaged field, damage kind, position class, layout class) + (layout class, writer open, T relative to the stamps, torn, T equals a stamp)",
        exhaustive_note="exhaustive over truncation lengths and single-bit flips for the small layouts only",
        assumptions=COMMON_ASSUME,
        legs=[leg("wal", "c10-wal", "rel", quick=2, thorough=16)],
    ),
    "C14": dict(
        level="exploration",
        technique="runtime monitor: round trips of grown replicated values through every encoding (WAL entry and file, segment, checkpoint via RecoveryManager::recover, gossip JSON shapes) compared structurally; exhaustive truncation / bit-flip mutants of small images through the real open-validate-read pipeline",
        level_text="Batches of 1-200 deltas of every CRDT kind (LWW, hash, G/PN counter, G/OR set; empty, 64 KiB, all byte values, invalid UTF-8, tombstones, vector clocks, expiry, rf, u64::MAX stamps) are pushed through WalEntry / WAL file / segment / checkpoint (the last two through RecoveryManager::recover over the in-memory object store) and all five gossip JSON message shapes, and compared on an accessor projection plus canonicalised serialised fields. Images up to 2 KiB are then damaged with every truncation length and every single-bit flip (sampled beyond), field-aware garbage and zero-fill; the pipeline must answer with an error (or end WAL recovery) or with identical content - never with different data.",
        level_note="corruption of padding / reserved / unused footer bytes that decodes to the same content is counted as benign; LocalWalStore / LocalFsObjectStore are not used (in-memory stores only)",
        rule="case = one batch through all encodings, or one damaged image through the read pipeline; distinct_nontrivial = distinct (kind, vector clock / expiry / rf / tombstone / empty-key presence, batch size) + (target, damaged field, damage kind, outcome)",
        exhaustive_note="exhaustive over truncation lengths and single-bit flips for images up to 2 KiB only",
        assumptions=COMMON_ASSUME,
        legs=[leg("codec", "c14-codec", "rel", quick=2, thorough=16)],
    ),
    "C15": dict(
        level="exploration",
        technique="runtime monitor: bounded-exhaustive + random inputs against both decoders under catch_unwind, a counting allocator and an independent strict RESP decoder; fragment-vs-whole replay; replies of real commands re-decoded; child-process abort detection",
        level_text="Every string over the RESP grammar alphabet up to length 6 (quick) / 7 (thorough), a header-shaped grid with negative/huge/overflowing lengths, random and mutated frames are run through RespCodec::parse and RespParser::parse in debug and release builds while monitors watch for panics, consumed-count errors, single allocations above 64*|input|+4 KiB, disagreement with an independent decoder on well-formed frames and prefix instability; valid and damaged streams are replayed under every 1- and 2-point fragmentation; replies produced by real commands (including client bytes with CR/LF reflected into errors) are pushed through every encoder, incl. the connection's via hook H1, and re-decoded. Held on the executions listed in the evidence, nothing more.",
        level_note="trusts the harness's strict RESP2 decoder as the definition of well-formed, the counting allocator for allocation sizes, and catch_unwind/child exit status for crashes; Lua, ACL and TLS paths are not part of this check",
        rule="case = one byte string (bounded-exhaustive over the alphabet '+-:$*019\\r\\na' up to the stated length, the header-shaped grid type×sign×digits×terminator×tail, seeded random strings and mutated valid frames), one valid/damaged stream with all its 1- and 2-point fragmentations, or one value emitted by a real command and pushed through an encoder; distinct_nontrivial = distinct (parser, type byte, length-field class, outcome kind, length bucket) tuples + distinct reply classes (command name, reply kind) + distinct tree shapes, counted by hashing",
        exhaustive_note="exhaustive: true refers to the enumerated alphabet strings up to enumerated_lmax and the header-shaped grid only",
        assumptions=COMMON_ASSUME + [
            "allocation is measured by a counting #[global_allocator] with thread-local windows; bound checked: single request <= 64*|input|+4096",
            "the independent strict RESP2 decoder in harness/src/myresp.rs defines 'well-formed'",
            "huge-length and deep-nesting inputs run one child process per case on a 2 MiB thread stack (tokio worker default)",
        ],
        legs=[
            leg("parse-dbg", "c15-parse", "dbg", quick=4, thorough=16),
            leg("parse-rel", "c15-parse", "rel", quick=4, thorough=16),
            leg("frag", "c15-frag", "rel", quick=2, thorough=16),
            leg("reply", "c15-reply", "rel", quick=1, thorough=4),
            leg("huge", "c15-huge", "rel", quick=1, thorough=2),
        ],
    ),
}
