#!/usr/bin/env python3
"""Regenerates MANIFEST.json from props.py (claimed checks) and properties.jsonl (everything else -> not_applicable)."""
import json, os, subprocess
ROOT = os.path.dirname(os.path.abspath(__file__))
import sys
sys.path.insert(0, ROOT)
from props import PROPS

ids = [json.loads(l)["id"] for l in open(os.path.join(ROOT, "properties.jsonl"))]
def hook_commits():
    out = subprocess.run(["git", "-C", "/repo", "log", "--format=%H %s"], stdout=subprocess.PIPE, text=True).stdout
    return [l.split()[0] for l in out.splitlines() if " verif hooks:" in l]

checks, na = [], []
for i in ids:
    p = PROPS.get(i)
    if not p:
        na.append(dict(property_id=i, reason="check not built yet (work in progress; the design in DESIGN.md section 4 applies)"))
        continue
    c = dict(
        property_id=i,
        quick_cmd="./check %s --tier quick" % i,
        thorough_cmd="./check %s --tier thorough" % i,
        evidence_file="/verif/evidence/%s.json" % i,
        replay_cmd_template="./check %s --replay {path}" % i,
        engine="vh",
        level_claimed=dict(category=p["level"], text=p["level_text"], design_ref=p.get("design_ref", "DESIGN.md §4 " + i)),
        level_note=p["level_note"],
        technique=p["technique"],
    )
    checks.append(c)

m = dict(
    version=1,
    setup_cmd="./setup.sh",
    hooks=dict(
        guard="--cfg redis_rust_verif",
        enable="RUSTFLAGS='--cfg redis_rust_verif' cargo build (from /verif/harness, path dependency on /repo); done by ./check",
        baseline_off_cmd="cd /repo && RUSTC_WRAPPER= cargo nextest run --workspace --no-fail-fast --test-threads 8 --offline",
        source_commits=hook_commits(),
        add_only=True,
    ),
    engines=[dict(name="vh", path="/verif/harness", serves_properties=sorted(PROPS.keys()),
                  kind_free_text="Rust harness linking /repo as a path dependency: workload generators, reference models, history/crash-image checkers, instrumented stores; driven by /verif/check (python3) which builds dbg/rel/asan/tsan/miri flavours, shards work over processes, merges reports, matches known_findings.json and writes evidence")],
    checks=checks,
    notes="Runtime monitoring and sanitizers only. Exit codes: 0 held on everything observed (KNOWN-FINDING lines list recorded defects), 1 VIOLATION, 2 INCONCLUSIVE (watchdog/build; never folded into the other two). VERIF_SEED seeds every generator; VERIF_TIER selects the tier when --tier is absent.",
    not_applicable=na,
)
json.dump(m, open(os.path.join(ROOT, "MANIFEST.json"), "w"), indent=1)
print("claimed:", [c["property_id"] for c in checks], "na:", len(na))
