#!/usr/bin/env python3
"""End-to-end convergence leg on the real `maelstrom-kv-replicated` binary (C06).

The binary is a reactive stdin/stdout node (Maelstrom protocol): `init`, client `read` / `write` / `cas`, and node-to-node
`replicate` messages that carry the deltas drained from the node's outbox (ReplicatedShardedState::collect_pending_deltas
- the drain path no in-process leg drives). This script *is* the network: 2-4 node processes, every `replicate` line a
node prints goes into an in-flight pool and is delivered when the seeded schedule says so - reordered, duplicated, delayed
behind a partition that heals, dropped and redelivered. No timers are involved anywhere (the nodes only act on input), so
a run is a pure function of its seed.

Oracle at quiescence (every replicate message delivered at least once to its destination): every node answers `read` for
every key alike, and the agreed value is the one of the delta carrying the greatest (timestamp, replica id) among all
deltas any node ever emitted for that key (the stamps are visible on the wire). During the run: a `write` must be answered
`write_ok`, a `cas` must succeed iff the node's own preceding read state equals `from` (checked against the node's own
last observable value only at quiescent instants, i.e. when nothing for that node is in flight).
"""
import os, sys, json, subprocess
sys.path.insert(0, os.path.dirname(os.path.abspath(__file__)))
from lib import *  # noqa


class Node:
    def __init__(self, name, ids):
        self.name = name
        self.p = subprocess.Popen([bin_path("maelstrom-kv-replicated")], stdin=subprocess.PIPE, stdout=subprocess.PIPE, stderr=subprocess.DEVNULL, bufsize=0)
        self.msg_id = 0
        self.out_replicate = []
        r = self.request(dict(type="init", node_id=name, node_ids=ids))
        assert r and r["body"]["type"] == "init_ok", r

    def _send(self, src, body):
        line = json.dumps(dict(src=src, dest=self.name, body=body)) + "\n"
        self.p.stdin.write(line.encode())
        self.p.stdin.flush()

    def request(self, body, src="c1"):
        """client request: returns the reply; replicate lines printed meanwhile are collected"""
        self.msg_id += 1
        body = dict(body, msg_id=self.msg_id)
        self._send(src, body)
        while True:
            line = self.p.stdout.readline()
            if not line:
                return None
            m = json.loads(line)
            if m["body"]["type"] == "replicate":
                self.out_replicate.append(m)
                continue
            if m["body"].get("in_reply_to") == self.msg_id:
                return m

    def deliver(self, msg):
        """node-to-node message: no reply is produced; it is consumed before the node's next reply"""
        self.p.stdin.write((json.dumps(msg) + "\n").encode())
        self.p.stdin.flush()

    def take_out(self):
        o, self.out_replicate = self.out_replicate, []
        return o

    def stop(self):
        try:
            self.p.kill()
            self.p.wait(timeout=5)
        except Exception:  # noqa
            pass


def run_case(rep, args, case, rng):
    n = rng.choice([2, 3, 3, 4])
    ids = ["n%d" % (i + 1) for i in range(n)]
    nodes = {i: Node(i, ids) for i in ids}
    keys = [rng.choice(["k", "10", "user:1", "a b"]) + str(i) for i in range(rng.choice([1, 2, 4]))]
    inflight = []          # (dest, msg, delivered_count)
    all_deltas = {}        # key -> list of (ts, replica, value|None)
    partition = None       # set of node names cut off from the rest
    nops = rng.choice([6, 20, 60]) if not args.thorough() else rng.choice([20, 60, 200])
    mode = rng.choice(["reorder", "reorder+dup", "partition", "exactly-once-fifo", "burst"])
    wit = dict(case=case, seed=args.seed, shard=args.shard, nodes=n, keys=keys, ops=nops, mode=mode, log=[])
    rep.count("cases")
    rep.count("mode:" + mode)
    rep.distinct((n, len(keys), nops, mode))
    uniq = [0]

    def collect(node):
        for m in node.take_out():
            for d in m["body"].get("deltas") or []:
                # (a field the node leaves out of the wire form is read as absent; what the delta *means* is judged by what the nodes serve)
                all_deltas.setdefault(d.get("key"), []).append((d.get("timestamp", 0), d.get("replica_id", 0), None if d.get("is_tombstone", False) else d.get("value"), "value" in d))
            inflight.append([m["dest"], m, 0])
            rep.count("replicate_messages")
            rep.maxc("deltas_per_message", len(m["body"].get("deltas") or []))

    def blocked(src, dst):
        return partition is not None and ((src in partition) != (dst in partition))

    def deliver_some(k):
        for _ in range(k):
            cand = [e for e in inflight if not blocked(e[1]["src"], e[0]) and (e[2] == 0 or mode == "reorder+dup")]
            if not cand:
                return
            e = cand[0] if mode == "exactly-once-fifo" else rng.choice(cand)
            nodes[e[0]].deliver(e[1])
            e[2] += 1
            rep.count("deliveries")
            if e[2] > 1:
                rep.count("duplicate_deliveries")
            if mode != "reorder+dup" or e[2] >= 3 or rng.random() < 0.5:
                if e[2] >= 1 and (mode != "reorder+dup" or rng.random() < 0.6):
                    inflight.remove(e)
    try:
        for step in range(nops):
            node = nodes[rng.choice(ids)]
            key = rng.choice(keys)
            r = rng.random()
            if mode == "partition" and rng.random() < 0.1:
                partition = None if partition else set(rng.sample(ids, rng.randrange(1, n)))
                rep.count("partition_changes")
            if r < 0.6:
                uniq[0] += 1
                val = rng.choice(["v%d" % uniq[0], uniq[0] * 7, "x y %d" % uniq[0], "v%d" % uniq[0], "", "0", "false", " "])
                resp = node.request(dict(type="write", key=key, value=val))
                wit["log"].append(["write", node.name, key, val])
                if not resp or resp["body"]["type"] != "write_ok":
                    rep.violation("C06|e2e-maelstrom|write-not-acknowledged", "write %r=%r at %s answered %r" % (key, val, node.name, resp), dict(wit))
            elif r < 0.75:
                cur = node.request(dict(type="read", key=key))
                uniq[0] += 1
                frm = cur["body"].get("value") if cur and cur["body"]["type"] == "read_ok" else "nope"
                if rng.random() < 0.3:
                    frm = "other"
                resp = node.request(dict(type="cas", key=key, **{"from": frm, "to": "c%d" % uniq[0]}))
                wit["log"].append(["cas", node.name, key, frm, "c%d" % uniq[0], resp["body"]["type"] if resp else None])
                expect_ok = cur and cur["body"]["type"] == "read_ok" and frm == cur["body"].get("value")
                # between the read and the cas nothing was delivered to this node, so its state did not move
                if resp and (resp["body"]["type"] == "cas_ok") != bool(expect_ok):
                    rep.violation("C06|e2e-maelstrom|cas-disagrees-with-own-read", "node %s read %r, cas from %r answered %r" % (node.name, cur["body"], frm, resp["body"]), dict(wit))
            else:
                node.request(dict(type="read", key=key))
            rep.d["evaluations"] += 1
            collect(node)
            if mode == "burst":
                if step % 25 == 24:
                    deliver_some(len(inflight))
            else:
                deliver_some(rng.choice([0, 0, 1, 2, 5]))
        # ---- quiescence: heal, deliver everything outstanding (everything at least once; in dup mode once more in another order)
        partition = None
        rounds = 0
        quiet = False
        while rounds < 60:
            rounds += 1
            while inflight:
                e = inflight[0] if mode == "exactly-once-fifo" else rng.choice(inflight)
                nodes[e[0]].deliver(e[1])
                e[2] += 1
                rep.count("deliveries")
                inflight.remove(e)
            # a node only shows what it printed in reaction to deliveries when it is next asked something
            for name, node in nodes.items():
                node.request(dict(type="read", key=keys[0]))
                collect(node)
            if not inflight:
                quiet = True
                break
        rep.maxc("rounds_to_quiescence", rounds)
        if not quiet:
            rep.violation("C06|e2e-maelstrom|replication-traffic-never-stops|mode=%s" % mode,
                          "after the clients stopped, 60 rounds of delivering everything in flight still leave %d messages in flight" % len(inflight), dict(wit))
        reads = {}
        for name, node in nodes.items():
            for k in keys:
                resp = node.request(dict(type="read", key=k))
                reads[(name, k)] = ("value", resp["body"].get("value")) if resp and resp["body"]["type"] == "read_ok" else ("none", resp["body"].get("code") if resp else None)
            late = node.take_out()
            if late:
                rep.note("reads produced replicate messages")
        for k in keys:
            vals = {name: reads[(name, k)] for name in ids}
            rep.count("keys_compared")
            if len(set(vals.values())) > 1:
                rep.violation("C06|e2e-maelstrom|replicas-differ-after-delivery|mode=%s" % mode,
                              "key %r: %s" % (k, vals), dict(wit, key=k, deltas=sorted(all_deltas.get(k, []), key=lambda d: (d[0], d[1]))[-6:]))
                continue
            ds = all_deltas.get(k, [])
            if ds:
                win = max(ds, key=lambda d: (d[0], d[1]))
                if win[2] is None and not win[3] and not any(x[2] is None and x[3] for x in ds):
                    # the wire form has no value field for this delta and no explicit tombstone flag was seen: the agreed value
                    # cannot be predicted from the wire (agreement itself has been checked above)
                    continue
                want = ("none", 20) if win[2] is None else ("value", win[2])
                got = vals[ids[0]]
                # values travel as strings; a value that parses as JSON is read back as that JSON value
                def canon(x):
                    if x[0] != "value":
                        return x
                    v = x[1]
                    if isinstance(v, str):
                        try:
                            return ("value", json.loads(v))
                        except ValueError:
                            return ("value", v)
                    return ("value", v)
                if canon(got) != canon(want):
                    rep.violation("C06|e2e-maelstrom|agreed-value-is-not-the-greatest-stamp|mode=%s" % mode,
                                  "key %r: every node serves %r; the delta with the greatest stamp %s carries %r" % (k, got, (win[0], win[1]), win[2]),
                                  dict(wit, key=k, deltas=sorted(ds, key=lambda d: (d[0], d[1]))[-6:]))
    finally:
        for nd in nodes.values():
            nd.stop()


def main():
    leg = sys.argv[1]
    args = Args(sys.argv[2:])
    rep = Report("C06", leg)
    rep.note("real binary maelstrom-kv-replicated (release, no hooks): this script is the network between 2-4 node processes")
    if not os.path.exists(bin_path("maelstrom-kv-replicated")):
        build_bins()
    ncases = args.get_int("cases", 120 if args.thorough() else 25)
    for c in range(ncases):
        try:
            run_case(rep, args, c, args.rng(c))
        except Exception as e:  # noqa
            import traceback
            rep.inconclusive("case %d: harness error %r %s" % (c, e, traceback.format_exc()[-700:]))
    if rep.d["evaluations"] == 0:
        rep.inconclusive("nothing ran")
    rep.write(args.out)


if __name__ == "__main__":
    main()
