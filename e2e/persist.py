#!/usr/bin/env python3
"""End-to-end persistence legs on the real `server-persistent` binary (always-fsync WAL + localfs object store).

usage: persist.py <leg> --prop C08|C09|C11 [--tier ..] [--seed ..] [--shard i/n] [--out report.json]

One *case* = one data directory living through 2-4 incarnations of the server process. In every incarnation 1-4 client
connections (real TCP, pipelined bursts) write SET / SET..EX / APPEND / INCR / DEL to string keys and HSET / HDEL to hash
keys they own (one writer per key => the issue order of a key's commands is total), every written value carrying a
unique token. The incarnation ends by SIGKILL in the middle of the traffic, SIGKILL after everything was acknowledged,
or SIGINT (graceful). Half of the incarnations run under strace.

Oracles
  C09  (a) fsync-before-ack on the syscall log: when the reply of a token-carrying write is handed to the socket, the
           token must lie inside a prefix of a WAL file that a *completed* fsync of that file covers;
       (b) power-loss images: at sampled reply positions the WAL directory is rebuilt from the log with every byte not
           covered by a completed fsync discarded (and, second variant, with all written bytes kept), the object-store
           directory is empty / as written so far; the real binary is started on the image: every key must be in a state
           reached by a prefix of its commands that contains every command acknowledged before that position;
       (c) SIGKILL + restart: the same prefix condition on what the restarted process serves (and WAL-only restart).
  C08  stamps in the WAL (append order, all incarnations) strictly increase per key; a value acknowledged after a
       restart is what the next incarnation serves (post-restart writes supersede recovered ones).
  C11  after the last incarnation: recovery from (object store + WAL), the same again, WAL only, and a copy of the
       directories started twice must all serve the same state, and that state satisfies the prefix condition.
"""
import os, sys, json, time, shutil, threading, subprocess
sys.path.insert(0, os.path.dirname(os.path.abspath(__file__)))
from lib import *  # noqa


# ------------------------------------------------------------------------------------------- per-key model
def apply_cmd(state, cmd):
    """state: None | ('s', bytes, ttl:bool) | ('h', dict). cmd: tuple. -> new state (errors leave it unchanged)."""
    k = cmd[0]
    if k == "SET":
        return ("s", cmd[2].encode(), False)
    if k == "SETEX":
        return ("s", cmd[2].encode(), True)
    if k == "APPEND":
        if state is None:
            return ("s", cmd[2].encode(), False)
        return ("s", state[1] + cmd[2].encode(), state[2])
    if k == "INCR":
        if state is None:
            return ("s", b"1", False)
        return ("s", b"%d" % (int(state[1]) + 1), state[2])
    if k == "DEL":
        return None
    if k == "HSET":
        d = dict(state[1]) if state else {}
        d[cmd[2].encode()] = cmd[3].encode()
        return ("h", d)
    if k == "HDEL":
        d = dict(state[1]) if state else {}
        d.pop(cmd[2].encode(), None)
        return ("h", d) if d else None
    raise ValueError(k)


def wire(cmd):
    k = cmd[0]
    if k == "SETEX":
        return enc("SET", cmd[1], cmd[2], "EX", "100000")
    return enc(*cmd)


def token_of(cmd):
    if "SAME" in cmd:
        return None
    return {"SET": 2, "SETEX": 2, "APPEND": 2, "HSET": 3}.get(cmd[0]) and cmd[{"SET": 2, "SETEX": 2, "APPEND": 2, "HSET": 3}[cmd[0]]]


def read_state(cl, key):
    """Visible state of one key through the protocol."""
    t = cl.cmd("TYPE", key)
    if t is None:
        return "?"
    if t == ("+", b"none"):
        return None
    if t == ("+", b"string"):
        v = cl.cmd("GET", key)
        ttl = cl.cmd("TTL", key)
        return ("s", v[1], bool(ttl and ttl[0] == ":" and ttl[1] > 0))
    if t == ("+", b"hash"):
        v = cl.cmd("HGETALL", key)
        items = v[1] or []
        d = {}
        for i in range(0, len(items) - 1, 2):
            d[items[i][1]] = items[i + 1][1]
        return ("h", d)
    return ("other", t)


def show(st):
    if st is None or st == "?":
        return st
    if st[0] == "s":
        v = st[1]
        return ["s", (v[:40] + b"..." + v[-20:] if len(v) > 70 else v).decode("latin1"), st[2]]
    if st[0] == "h":
        return ["h", {k.decode("latin1"): v.decode("latin1") for k, v in sorted(st[1].items())}]
    return repr(st)


class KeyHist:
    def __init__(self):
        self.base = None
        self.cmds = []     # (conn, index in conn list, cmd, incarnation)
        self.states = [None]

    def rebase(self, st):
        self.base, self.cmds, self.states = st, [], [st]

    def push(self, conn, idx, cmd, inc):
        self.cmds.append((conn, idx, cmd, inc))
        self.states.append(apply_cmd(self.states[-1], cmd))

    def admissible(self, observed, acked_n):
        """largest j >= acked_n with states[j] == observed, else None"""
        for j in range(len(self.states) - 1, acked_n - 1, -1):
            if self.states[j] == observed:
                return j
        return None

    def classify(self, observed, acked_n):
        for j in range(min(acked_n, len(self.states)) - 1, -1, -1):
            if self.states[j] == observed:
                return "older-prefix"      # acknowledged writes are missing
        return "no-prefix"                 # not a state any prefix of the key's commands produces


# ------------------------------------------------------------------------------------------- workload
class ConnPlan:
    def __init__(self, cid, cmds, bursts):
        self.cid, self.cmds, self.bursts = cid, cmds, bursts
        self.sent = 0
        self.acked = 0
        self.replies = []
        self.local_port = None
        self.err = None


def gen_plan(rng, inc, nconn, ncmds, big):
    plans = []
    for c in range(nconn):
        cmds = []
        skeys = ["s%d_%d" % (c, i) for i in range(2)]
        hkeys = ["h%d_%d" % (c, i) for i in range(2)]
        ckey = "n%d" % c
        for q in range(ncmds):
            tok = "T%dx%dx%dq" % (inc, c, q)
            if big and rng.random() < 0.15:
                tok = tok + "P" * rng.choice([300, 5000, 70000])
            r = rng.random()
            if r < 0.05:
                cmds.append(("SET", rng.choice(skeys), "SAME"))   # the same value again and again: still a write, still a new stamp
            elif r < 0.30:
                cmds.append(("SET", rng.choice(skeys), tok))
            elif r < 0.38:
                cmds.append(("SETEX", rng.choice(skeys), tok))
            elif r < 0.50:
                cmds.append(("APPEND", rng.choice(skeys), tok))
            elif r < 0.60:
                cmds.append(("DEL", rng.choice(skeys)))
            elif r < 0.72:
                cmds.append(("INCR", ckey))
            elif r < 0.92:
                cmds.append(("HSET", rng.choice(hkeys), "f%d" % rng.randrange(3), tok))
            else:
                cmds.append(("HDEL", rng.choice(hkeys), "f%d" % rng.randrange(3)))
        bursts = []
        left = ncmds
        while left > 0:
            b = min(left, rng.choice([1, 1, 2, 3, 5, 8]))
            bursts.append(b)
            left -= b
        plans.append(ConnPlan(c, cmds, bursts))
    return plans


def run_conn(plan, port, stop, pace):
    try:
        cl = Client(port, timeout=20.0)
    except OSError as e:
        plan.err = "connect: %s" % e
        return
    plan.local_port = cl.local_port
    i = 0
    try:
        for b in plan.bursts:
            if stop.is_set():
                break
            data = b"".join(wire(c) for c in plan.cmds[i:i + b])
            try:
                cl.send(data)
            except OSError:
                break
            plan.sent = i + b
            got = cl.recv_replies(b, timeout=20.0)
            plan.replies.extend(got)
            plan.acked += len(got)
            if len(got) < b:
                break
            i += b
            if pace:
                time.sleep(pace)
    finally:
        cl.close()


def server_env(port, d, w):
    return dict(REDIS_PORT=str(port), REDIS_STORE_TYPE="localfs", REDIS_DATA_PATH=d, REDIS_WAL_ENABLED="true", REDIS_WAL_DIR=w,
                REDIS_WAL_FSYNC="always", RUST_LOG="warn")


def all_keys(nconn_max):
    ks = []
    for c in range(nconn_max):
        ks += ["s%d_%d" % (c, i) for i in range(2)] + ["h%d_%d" % (c, i) for i in range(2)] + ["n%d" % c]
    return ks


def snapshot_keys(port, keys):
    cl = Client(port, timeout=20.0)
    try:
        return {k: read_state(cl, k) for k in keys}
    finally:
        cl.close()


def start_server(shard, d, w, log, trace=None):
    """-> (server, port, ready, why). A start that fails because a port was taken in the meantime is repeated on other ports."""
    why = ""
    for attempt in range(6):
        port = alloc_ports(shard, 2)
        mark = os.path.getsize(log) if os.path.exists(log) else 0
        srv = Server(bin_path("server-persistent"), server_env(port, d, w), port, trace_path=trace, log_path=log)
        if srv.wait_ready(40.0):
            return srv, port, True, ""
        rc = srv.p.poll()
        srv.kill9()
        tail = b""
        try:
            with open(log, "rb") as f:
                f.seek(mark)
                tail = f.read()[-3000:]
        except OSError:
            pass
        why = "rc=%s: %s" % (rc, tail.decode("utf-8", "replace")[-1200:])
        if b"Address already in use" in tail or b"os error 98" in tail:
            continue
        return srv, port, False, why
    return srv, port, False, "ports: " + why


def start_and_snapshot(rep, shard, d, w, keys, log, trace=None):
    """Start the binary on (d, w), read every key, kill it. -> (states | None, why)"""
    srv, port, ready, why = start_server(shard, d, w, log, trace)
    try:
        if not ready:
            if why.startswith("ports:") or why.startswith("rc=None"):
                rep.inconclusive("server not ready: " + why[:200])
            return None, "server did not come up (%s)" % why
        for attempt in range(3):
            try:
                return snapshot_keys(port, keys), ""
            except Exception as e:  # noqa
                time.sleep(0.2)
                if not srv.alive():
                    # the process ended while answering reads on the state it had just recovered
                    return None, "the server ended (rc=%s) while its recovered state was being read: %r" % (srv.p.poll(), e)
                last = e
        # alive but not answering: not something this check can attribute to the code under test
        rep.inconclusive("a started server stopped answering reads while still alive: %r" % (last,))
        return None, "rc=None: reads unanswered by a live process"
    finally:
        srv.kill9()


# ------------------------------------------------------------------------------------------- one case
def run_case(rep, args, case_no, rng, findings):
    base = os.path.join(target_dir(), "e2e", "persist.%s.%d.%d" % (args.extra.get("prop", "x"), args.shard, os.getpid()), "case%d" % case_no)
    shutil.rmtree(base, ignore_errors=True)
    d, w = os.path.join(base, "d"), os.path.join(base, "w")
    os.makedirs(d); os.makedirs(w)
    log = os.path.join(base, "server.log")
    nconn_max = 4
    keys = all_keys(nconn_max)
    hist = {k: KeyHist() for k in keys}
    n_inc = rng.choice([2, 3, 3, 4]) if args.thorough() else rng.choice([2, 3])
    wal_files_by_inc = []
    witness = dict(case=case_no, seed=args.seed, shard=args.shard, incarnations=[])
    max_images = args.get_int("images", 24 if args.thorough() else 5)
    ok_so_far = True
    n_findings0 = len(findings)

    for inc in range(n_inc):
        mode = rng.choice(["kill-mid", "kill-mid", "kill-end", "sigint"])
        traced = rng.random() < (0.5 if inc > 0 else 0.7)
        nconn = rng.choice([1, 2, 3, 4])
        ncmds = rng.choice([6, 15, 30, 60]) if not traced else rng.choice([6, 12, 25])
        big = rng.random() < 0.25
        pace = rng.choice([0, 0, 0.002, 0.3 if rng.random() < 0.3 else 0])  # a slow pace lets the 250 ms flush worker run in between
        plans = gen_plan(rng, inc, nconn, ncmds, big)
        trace = os.path.join(base, "trace%d.log" % inc) if traced else None
        initial_files = read_tree(base) if traced else None
        srv, port, ready, why = start_server(args.shard, d, w, log, trace)
        info = dict(inc=inc, mode=mode, traced=traced, nconn=nconn, ncmds=ncmds, pace=pace, big=big)
        witness["incarnations"].append(info)
        rep.count("incarnations")
        rep.count("mode:" + mode)
        rep.distinct(("inc", inc > 0, mode, traced, nconn, ncmds, bool(pace), big))
        if not ready:
            if why.startswith("ports:") or why.startswith("rc=None"):
                rep.inconclusive("case %d: server not ready: %s" % (case_no, why[:200]))
            else:
                findings.append(("C11", "C11|e2e|server-does-not-start-on-its-own-files|inc=%s" % ("first" if inc == 0 else "later"),
                                 "incarnation %d ended during start-up/recovery: %s" % (inc, why), dict(witness, log_tail=why)))
            return
        # ---- what the fresh incarnation serves (prefix condition against everything acknowledged so far)
        if inc > 0:
            try:
                snap = snapshot_keys(port, keys)
            except Exception as e:  # noqa
                rep.inconclusive("case %d: snapshot failed: %r" % (case_no, e))
                srv.kill9()
                return
            ok_so_far &= judge(rep, findings, hist, snap, acked_counts_final, "restart", witness, prev_mode)
            for k in keys:
                hist[k].rebase(snap[k])
        # ---- traffic
        for pl in plans:
            for idx, cmd in enumerate(pl.cmds):
                hist[cmd[1]].push(pl.cid, idx, cmd, inc)
        stop = threading.Event()
        ths = [threading.Thread(target=run_conn, args=(pl, port, stop, pace)) for pl in plans]
        total = sum(len(pl.cmds) for pl in plans)
        kill_at = rng.randrange(0, total + 1) if mode == "kill-mid" else total
        for t in ths:
            t.start()
        t0 = time.time()
        while time.time() - t0 < 120:
            acked = sum(pl.acked for pl in plans)
            if acked >= kill_at or not any(t.is_alive() for t in ths):
                break
            time.sleep(0.001)
        if mode == "kill-mid":
            srv.kill9()
            stop.set()
        for t in ths:
            t.join(timeout=60)
        if mode == "kill-end":
            if rng.random() < 0.5:
                time.sleep(0.35)   # let the flush worker publish a segment first
            srv.kill9()
        elif mode == "sigint":
            done = srv.sigint(timeout=40.0)
            if not done:
                findings.append(("C09", "C09|e2e|graceful-shutdown-hangs", "SIGINT did not end the process within 40 s", dict(witness)))
        died = (mode != "kill-mid") and any(pl.acked < len(pl.cmds) for pl in plans)
        info["acked"] = [pl.acked for pl in plans]
        info["sent"] = [pl.sent for pl in plans]
        rep.count("commands_sent", sum(pl.sent for pl in plans))
        rep.count("commands_acked", sum(pl.acked for pl in plans))
        rep.d["evaluations"] += sum(pl.acked for pl in plans)
        for pl in plans:
            for cmd, r in zip(pl.cmds, pl.replies):
                rep.count("cmd:" + cmd[0])
                if r[0] == "-":
                    rep.count("unexpected_error_replies")
                    rep.note("unexpected error reply to %s: %r" % (cmd[0], r[1][:80]))
        if died:
            tail = open(log, "rb").read()[-1500:].decode("utf-8", "replace")
            if "panicked" in tail or srv.p.returncode not in (0, -9, None):
                findings.append(("C09", "C09|e2e|server-died-under-load", "server ended by itself (rc=%s) while clients were writing: %s" % (srv.p.returncode, tail),
                                 dict(witness, log_tail=tail)))
            else:
                rep.inconclusive("case %d inc %d: a client stopped early although the server was not killed (%s)" % (case_no, inc, [pl.err for pl in plans]))
        # acknowledged count per key after this incarnation
        acked_counts_final = {k: 0 for k in keys}
        for k in keys:
            n = 0
            for (cid, idx, cmd, _i) in hist[k].cmds:
                if idx < plans[cid].acked:
                    n += 1
                else:
                    pass
            # commands of a key are issued by one connection in order => acked ones are a prefix
            acked_counts_final[k] = n
        prev_mode = mode
        wal_files_by_inc.append(sorted(os.listdir(w)))
        # ---- syscall-log oracles
        if traced:
            try:
                trace_oracles(rep, args, findings, base, d, w, trace, initial_files, plans, hist, keys, witness, rng, max_images, inc)
            except Exception as e:  # noqa
                import traceback
                rep.inconclusive("case %d: trace analysis failed: %r %s" % (case_no, e, traceback.format_exc()[-600:]))
    # ---------------- after the last incarnation
    final_variants(rep, args, findings, base, d, w, keys, hist, acked_counts_final, witness, log, prev_mode)
    stamp_oracle(rep, findings, w, wal_files_by_inc, witness)
    if len(findings) == n_findings0 and not os.environ.get("VH_KEEP"):
        shutil.rmtree(base, ignore_errors=True)


def hot_case(rep, args, case_no, rng, findings):
    """A long log for few keys, then a write that arrives the moment the restarted process accepts connections (while the
    replay of its own log may still be queued), then another restart. The post-restart write must be what is served, at once and
    after the next recovery, and its stamp must lie above everything in the log."""
    base = os.path.join(target_dir(), "e2e", "persist.%s.%d.%d" % (args.extra.get("prop", "x"), args.shard, os.getpid()), "hot%d" % case_no)
    shutil.rmtree(base, ignore_errors=True)
    d, w = os.path.join(base, "d"), os.path.join(base, "w")
    os.makedirs(d); os.makedirs(w)
    log = os.path.join(base, "server.log")
    n0 = len(findings)
    nkeys = rng.choice([1, 1, 2])
    keys = ["hot%d" % i for i in range(nkeys)]
    nw = rng.choice([150, 400, 900]) if not args.thorough() else rng.choice([400, 2500, 30000])
    nw = args.get_int("hotwrites", nw)
    witness = dict(case=case_no, kind="hot", seed=args.seed, shard=args.shard, writes=nw, keys=nkeys)
    rep.count("hot_cases")
    rep.distinct(("hot", nkeys, nw))
    srv, port, ready, why = start_server(args.shard, d, w, log)
    if not ready:
        rep.inconclusive("hot case: server not ready: " + why[:200])
        return
    cl = Client(port, timeout=30.0)
    last = {}
    sent = 0
    while sent < nw:
        b = min(50, nw - sent)
        data = b""
        for i in range(b):
            k = keys[(sent + i) % nkeys]
            v = "H%dx%d" % (case_no, sent + i)
            data += enc("SET", k, v)
            last[k] = v
        cl.send(data)
        got = cl.recv_replies(b, timeout=30.0)
        if len(got) < b:
            rep.inconclusive("hot case: replies missing while filling the log")
            srv.kill9()
            return
        sent += b
    cl.close()
    rep.d["evaluations"] += nw
    rep.count("commands_acked", nw)
    files1 = sorted(os.listdir(w))
    srv.kill9()
    store_too = rng.random() < 0.5
    if not store_too:
        shutil.rmtree(d); os.makedirs(d)     # nothing but the WAL: the whole history is replayed entry by entry
    srv, port, ready, why = start_server(args.shard, d, w, log)
    if not ready:
        findings.append(("C11", "C11|e2e|server-does-not-start-on-its-own-files|hot", why, dict(witness)))
        return
    cl = Client(port, timeout=30.0)
    k = keys[0]
    cl.send(enc("SET", k, "POST") + enc("GET", k))
    got = cl.recv_replies(2, timeout=30.0)
    rep.count("eager_post_restart_writes")
    if len(got) == 2 and got[1] != ("$", b"POST"):
        findings.append(("C08", "C08|e2e|post-restart-write-not-served|eager|%s" % ("store+wal" if store_too else "wal-only"),
                         "SET %s POST sent as the first bytes after the restart was acknowledged (%r); the GET behind it answers %r (last pre-crash value %s)" % (k, got[0], got[1], last[k]),
                         dict(witness)))
    time.sleep(0.05)
    g2 = cl.cmd("GET", k)
    if g2 != ("$", b"POST"):
        findings.append(("C08", "C08|e2e|post-restart-write-superseded-later|eager|%s" % ("store+wal" if store_too else "wal-only"),
                         "GET %s a moment after the acknowledged post-restart SET answers %r" % (k, g2), dict(witness)))
    cl.close()
    files2 = sorted(os.listdir(w))
    srv.kill9()
    snap, why = start_and_snapshot(rep, args.shard, d, w, keys, log)
    if snap is not None:
        for kk in keys:
            want = b"POST" if kk == k else last[kk].encode()
            if not (snap[kk] and snap[kk][0] == "s" and snap[kk][1] == want):
                findings.append(("C08" if kk == k else "C09", "%s|e2e|%s|hot" % (("C08", "post-restart-write-lost-by-next-recovery") if kk == k else ("C09", "restart|acked-write-lost")),
                                 "after the second restart key %s serves %s, expected %r" % (kk, show(snap[kk]), want), dict(witness, key=kk)))
    stamp_oracle(rep, findings, w, [files1, files2], witness)
    if len(findings) == n0 and not os.environ.get("VH_KEEP"):
        shutil.rmtree(base, ignore_errors=True)


def compaction_case(rep, args, case_no, rng, findings):
    """The real compaction worker beside the real flush worker (C13, thorough tier: one case takes 1-2 minutes).
    One connection writes without pause (a few ms apart) so that every 250 ms flush window yields a segment; after a
    hundred-odd segments the worker's next check (every 60 s) compacts ten of them while flushes go on. When the log shows
    the compaction, the writer stops, the process is shut down gracefully (SIGINT: buffers flushed) and restarted twice:
    on the object store alone (WAL directory emptied) and on everything. Both must serve, for every key, the state after
    all of its commands (all were acknowledged well before the shutdown)."""
    base = os.path.join(target_dir(), "e2e", "persist.%s.%d.%d" % (args.extra.get("prop", "x"), args.shard, os.getpid()), "compact%d" % case_no)
    shutil.rmtree(base, ignore_errors=True)
    d, w = os.path.join(base, "d"), os.path.join(base, "w")
    os.makedirs(d); os.makedirs(w)
    log = os.path.join(base, "server.log")
    n0 = len(findings)
    keys = all_keys(1)
    hist = {k: KeyHist() for k in keys}
    witness = dict(case=case_no, kind="compaction", seed=args.seed, shard=args.shard)
    rep.count("compaction_cases")
    srv, port, ready, why = start_server(args.shard, d, w, log)
    if not ready:
        rep.inconclusive("compaction case: server not ready: " + why[:200])
        return
    cl = Client(port, timeout=30.0)
    t0 = time.time()
    sent = 0
    seen_at = None
    restarts = 0
    restart_at = rng.choice([None, 12.0, 20.0])   # one SIGKILL + restart on the way in some cases: segments and WAL carry over
    while time.time() - t0 < 130:
        plan = gen_plan(rng, 0, 1, 20, False)[0]
        for cmd in plan.cmds:
            hist[cmd[1]].push(0, sent, cmd, 0)
            cl.send(wire(cmd))
            r = cl.recv_replies(1, timeout=30.0)
            if not r:
                rep.inconclusive("compaction case: reply missing while writing")
                srv.kill9()
                return
            sent += 1
            time.sleep(0.004)
        rep.d["evaluations"] += len(plan.cmds)
        if restart_at and restarts == 0 and time.time() - t0 > restart_at:
            cl.close()
            srv.kill9()
            srv, port, ready, why = start_server(args.shard, d, w, log)
            if not ready:
                findings.append(("C11", "C11|e2e|server-does-not-start-on-its-own-files|compaction-case", why, dict(witness)))
                return
            cl = Client(port, timeout=30.0)
            restarts += 1
        try:
            txt = open(log, "rb").read()
        except OSError:
            txt = b""
        if b"Compaction complete" in txt:
            if seen_at is None:
                seen_at = time.time()
                rep.count("compactions_observed")
            elif time.time() - seen_at > 1.0:
                break
    nseg = len([f for f in os.listdir(os.path.join(d, "redis-stream", "segments"))]) if os.path.isdir(os.path.join(d, "redis-stream", "segments")) else 0
    rep.maxc("segments_on_disk", nseg)
    rep.count("commands_acked", sent)
    cl.close()
    if seen_at is None:
        rep.count("compaction_not_observed_within_130s")
    time.sleep(0.9)   # at least three flush windows with nothing new
    if not srv.sigint(timeout=60.0):
        findings.append(("C09", "C09|e2e|graceful-shutdown-hangs", "SIGINT did not end the process within 60 s", dict(witness)))
    acked = {k: len(hist[k].cmds) for k in keys}
    c1 = os.path.join(base, "store_only")
    shutil.copytree(d, os.path.join(c1, "d")); os.makedirs(os.path.join(c1, "w"))
    for name, (dd, ww) in (("store-only", (os.path.join(c1, "d"), os.path.join(c1, "w"))), ("store+wal", (d, w))):
        snap, why = start_and_snapshot(rep, args.shard, dd, ww, keys, log)
        if snap is None:
            if "ports:" not in why and "rc=None" not in why:
                findings.append(("C13", "C13|e2e|recovery-fails-after-compaction|%s" % name, why, dict(witness)))
            continue
        rep.count("recoveries_after_compaction")
        judge(rep, findings, hist, snap, acked, "after-compaction-and-graceful-shutdown", dict(witness, variant=name, compaction_seen=seen_at is not None), "sigint",
              prop="C13", extra="|%s|%s" % (name, "compaction-ran" if seen_at else "no-compaction"))
    if len(findings) == n0 and not os.environ.get("VH_KEEP"):
        shutil.rmtree(base, ignore_errors=True)


def judge(rep, findings, hist, snap, acked, where, witness, prev_mode, prop="C09", extra=""):
    ok = True
    for k, st in snap.items():
        h = hist[k]
        if not h.cmds and st == h.base:
            continue
        rep.count("keys_judged")
        j = h.admissible(st, acked.get(k, 0))
        if j is not None:
            rep.count("recovered:acked-prefix" if j == acked.get(k, 0) else "recovered:acked+unacked-suffix")
            continue
        ok = False
        cls = h.classify(st, acked.get(k, 0))
        kind = "hash" if k.startswith("h") else ("counter" if k.startswith("n") else "string")
        first_missing = h.cmds[acked.get(k, 0) - 1][2][0] if acked.get(k, 0) else "-"
        lost_inc = sorted({c[3] for c in h.cmds[: acked.get(k, 0)]})
        sig = "%s|e2e|%s|%s|%s%s" % (prop, where, "acked-write-lost" if cls == "older-prefix" else "state-of-no-prefix", kind, extra)
        findings.append((prop, sig,
                         "key %s serves %s; %d of its %d commands were acknowledged (last acknowledged: %s); admissible states: %s" % (
                             k, show(st), acked.get(k, 0), len(h.cmds), first_missing, [show(s) for s in h.states[acked.get(k, 0):][:4]]),
                         dict(witness, key=k, served=show(st), acked=acked.get(k, 0), cmds=[c[2][:3] + ((c[2][3][:24],) if len(c[2]) > 3 else ()) for c in h.cmds][:80],
                              base=show(h.base), after=prev_mode, incarnations_of_acked=lost_inc)))
    return ok


def trace_oracles(rep, args, findings, base, d, w, trace, initial_files, plans, hist, keys, witness, rng, max_images, inc):
    evs = parse_trace(trace)
    rep.count("trace_events", len(evs))
    img = FsImage(base, initial_files)
    by_port = {pl.local_port: pl for pl in plans if pl.local_port}
    sent_bytes = {pl.cid: bytearray() for pl in plans}
    replies_sent = {pl.cid: 0 for pl in plans}
    checked = {pl.cid: 0 for pl in plans}
    positions = []   # (event index, {cid: replies sent})
    wal_prefix = w + "/"
    for ei, ev in enumerate(evs):
        img.apply(ev)
        c = ev["call"]
        if c == "fsync" and ev["phase"] in ("full", "exit"):
            rep.count("fsyncs_seen")
        if c == "write" and ev["phase"] in ("full", "exit") and ev.get("path", "").startswith(wal_prefix):
            rep.count("wal_writes_seen")
        if c in ("sendto", "write") and ev["phase"] in ("full", "enter") and ev.get("path", "").startswith("TCP:["):
            # reply bytes handed to the kernel: judged at the moment the call is *entered* (the bytes may be on the wire from here on)
            m = re.search(r"->127\.0\.0\.1:(\d+)\]", ev["path"])
            if not m or int(m.group(1)) not in by_port:
                continue
            pl = by_port[int(m.group(1))]
            data = ev.get("data") or b""
            sent_bytes[pl.cid].extend(data)
            vals, used = parse_all(sent_bytes[pl.cid])
            del sent_bytes[pl.cid][:used]
            n0 = replies_sent[pl.cid]
            replies_sent[pl.cid] += len(vals)
            rep.count("reply_sends_seen")
            # (a) fsync-before-ack
            for i in range(n0, min(replies_sent[pl.cid], len(pl.cmds))):
                cmd = pl.cmds[i]
                tok = token_of(cmd)
                if not tok or vals[i - n0][0] == "-":
                    continue
                rep.count("acks_checked_against_fsync")
                tb = tok.encode()
                where = None
                for p, b in img.files.items():
                    if p.startswith(wal_prefix):
                        o = b.find(tb)
                        if o >= 0:
                            where = (p, o + len(tb), img.synced.get(p, 0))
                            break
                if where is None:
                    findings.append(("C09", "C09|e2e|acked-before-written-to-wal|cmd=%s" % cmd[0],
                                     "reply %d of connection %d handed to the socket at log line %d; its token is in no WAL file yet" % (i, pl.cid, ev["pos"]),
                                     dict(witness, cmd=list(cmd)[:3], line=ev["pos"])))
                elif where[2] < where[1]:
                    findings.append(("C09", "C09|e2e|acked-before-fsync|cmd=%s" % cmd[0],
                                     "reply %d of connection %d handed to the socket at log line %d; its WAL bytes end at offset %d of %s, completed fsyncs cover %d" % (
                                         i, pl.cid, ev["pos"], where[1], os.path.basename(where[0]), where[2]),
                                     dict(witness, cmd=list(cmd)[:3], line=ev["pos"], wal_end=where[1], synced=where[2])))
            positions.append((ei, dict(replies_sent)))
    for a in img.anomalies[:3]:
        rep.note("syscall log: " + a)
    if img.anomalies and any("wal" in a for a in img.anomalies):
        rep.inconclusive("WAL files are written in a way the image reconstruction does not model: %s" % img.anomalies[0])
        return
    if not positions:
        return
    # (b) power-loss images at sampled reply positions (always including the last one)
    pick = sorted(set(rng.sample(range(len(positions)), min(max_images, len(positions))) + [len(positions) - 1]))
    for pi in pick:
        ei, sent = positions[pi]
        img2 = FsImage(base, initial_files)
        for ev in evs[: ei + 1]:
            img2.apply(ev)
        # the reply at ei is judged as sent: everything up to and including it counts as acknowledged
        acked = {}
        for k in keys:
            n = 0
            for (cid, idx, cmd, inc_) in hist[k].cmds:
                if inc_ == inc and idx < sent.get(cid, 0):
                    n += 1
            acked[k] = n
        for variant, with_store in (("synced", False), ("synced", True), ("written", True)):
            idir = os.path.join(base, "img")
            shutil.rmtree(idir, ignore_errors=True)
            os.makedirs(idir)
            img2.materialise(idir, "w", variant)
            if with_store:
                img2.materialise(idir, "d", "written")
            else:
                os.makedirs(os.path.join(idir, "d"), exist_ok=True)
            snap, why = start_and_snapshot(rep, args.shard, os.path.join(idir, "d"), os.path.join(idir, "w"), keys, os.path.join(base, "img.log"))
            rep.count("crash_images")
            rep.count("crash_images:%s%s" % (variant, "+store" if with_store else ""))
            rep.distinct(("img", variant, with_store, pi == len(positions) - 1, inc > 0))
            if snap is None and ("ports:" in why or "rc=None" in why):
                continue
            if snap is None:
                tail = ""
                findings.append(("C09", "C09|e2e|crash-image|recovery-fails|wal=%s,store=%s" % (variant, "as-written" if with_store else "empty"),
                                 "the binary does not come up on the image at log line %d: %s | %s" % (evs[ei]["pos"], why, tail), dict(witness, line=evs[ei]["pos"])))
                continue
            # base of this incarnation + this incarnation's commands: only keys touched here are judged when the store is empty (older data may have lived in the store only)
            sub = {k: v for k, v in snap.items() if hist[k].cmds or with_store}
            judge(rep, findings, hist, sub, acked, "crash-image", dict(witness, line=evs[ei]["pos"], variant=variant, store=with_store), "power-loss",
                  extra="|wal=%s,store=%s" % (variant, "as-written" if with_store else "empty"))
            shutil.rmtree(idir, ignore_errors=True)


def final_variants(rep, args, findings, base, d, w, keys, hist, acked, witness, log, prev_mode):
    snaps = {}
    s1, why = start_and_snapshot(rep, args.shard, d, w, keys, log)
    if s1 is None:
        if "ports:" not in why and "rc=None" not in why:
            findings.append(("C11", "C11|e2e|server-does-not-start-on-its-own-files|final", why, dict(witness)))
        return
    judge(rep, findings, hist, s1, acked, "restart", witness, prev_mode)
    snaps["full"] = s1
    s2, why = start_and_snapshot(rep, args.shard, d, w, keys, log)
    snaps["full-again"] = s2
    # copies: WAL only, and the full pair started twice
    c1 = os.path.join(base, "copy_walonly")
    shutil.copytree(w, os.path.join(c1, "w")); os.makedirs(os.path.join(c1, "d"))
    s3, why3 = start_and_snapshot(rep, args.shard, os.path.join(c1, "d"), os.path.join(c1, "w"), keys, log)
    snaps["wal-only"] = s3
    rep.count("final_recoveries", 3)
    for name, s in snaps.items():
        if s is None:
            w_ = {"full-again": why, "wal-only": why3}.get(name, "")
            if "ports:" not in w_ and "rc=None" not in w_:
                findings.append(("C11", "C11|e2e|recovery-variant-fails|%s" % name, "the binary did not serve on variant %s: %s" % (name, w_), dict(witness)))
            continue
        if name != "full":
            diff = [k for k in keys if s[k] != s1[k] and not (s[k] and s1[k] and s[k][0] == "s" and s1[k][0] == "s" and s[k][1] == s1[k][1])]
            diff_ttl = [k for k in keys if s[k] != s1[k] and k not in diff]
            if diff:
                k = diff[0]
                kind = "hash" if k.startswith("h") else ("counter" if k.startswith("n") else "string")
                findings.append(("C11", "C11|e2e|recoveries-disagree|full-vs-%s|%s" % (name, kind),
                                 "key %s: full recovery serves %s, %s serves %s" % (k, show(s1[k]), name, show(s[k])), dict(witness, key=k, keys=diff[:6])))
            if diff_ttl:
                findings.append(("C11", "C11|e2e|recoveries-disagree|full-vs-%s|ttl-class" % name,
                                 "key %s: full recovery serves %s, %s serves %s" % (diff_ttl[0], show(s1[diff_ttl[0]]), name, show(s[diff_ttl[0]])), dict(witness, key=diff_ttl[0])))
            if name == "wal-only":
                judge(rep, findings, hist, {k: v for k, v in s.items() if True}, acked, "wal-only-restart", witness, prev_mode, prop="C09")
    shutil.rmtree(c1, ignore_errors=True)


def stamp_oracle(rep, findings, w, wal_files_by_inc, witness):
    vh = os.path.join(target_dir(), "release", "vh")
    p = subprocess.run([vh, "wal-dump", "--dir", w], stdout=subprocess.PIPE, stderr=subprocess.PIPE, timeout=120)
    if p.returncode != 0:
        rep.inconclusive("wal-dump failed: %s" % p.stderr[-300:])
        return
    ents = json.loads(p.stdout.decode() or "[]")
    file_inc = {}
    seen = set()
    for i, fl in enumerate(wal_files_by_inc):
        for f in fl:
            if f not in seen:
                file_inc[f] = i
                seen.add(f)
    last = {}
    for e in ents:
        if "key" not in e:
            continue
        rep.count("wal_stamps_checked")
        st = (e["time"], e["replica"])
        k = e["key"]
        if k in last and st == last[k][0] and e.get("content") == last[k][2] and e["kind"] == "hash":
            rep.count("wal_reemissions_of_identical_update")   # e.g. HDEL of a field that does not exist: same state, same stamp, nothing new to order
            continue
        if k in last and not (st > last[k][0]):
            across = file_inc.get(e["file"]) != file_inc.get(last[k][1])
            findings.append(("C08", "C08|e2e|stamp-not-above-earlier|%s|%s" % (e["kind"], "across-restart" if across else "same-incarnation"),
                             "key %s: WAL entry %s#%d carries stamp %s, an earlier entry (%s) carried %s" % (k, e["file"], e["idx"], st, last[k][1], last[k][0]),
                             dict(witness, key=k)))
        if k not in last or st > last[k][0]:
            last[k] = (st, e["file"], e.get("content"))
    rep.count("wal_files", len({e["file"] for e in ents}))


def main():
    leg = sys.argv[1]
    args = Args(sys.argv[2:])
    prop = args.extra.get("prop", "C09")
    rep = Report(prop, leg)
    rep.note("real binary server-persistent (release, panic=abort, no hooks) over loopback TCP; REDIS_WAL_FSYNC=always, localfs object store")
    if not os.path.exists(bin_path("server-persistent")):
        build_bins()
    ncases = args.get_int("cases", 9 if args.thorough() else 3)
    if prop == "C13":
        ncases = args.get_int("cases", 1)
    findings = []
    for c in range(ncases):
        rng = args.rng(c)
        n0 = len(findings)
        try:
            if prop == "C13":
                compaction_case(rep, args, c, rng, findings)
            elif c % 3 == 2:
                hot_case(rep, args, c, rng, findings)
            else:
                run_case(rep, args, c, rng, findings)
        except Exception as e:  # noqa
            import traceback
            rep.inconclusive("case %d: harness error %r %s" % (c, e, traceback.format_exc()[-800:]))
        rep.count("cases")
    other = 0
    for (p, sig, detail, wit) in findings:
        if p == prop:
            rep.violation(sig, detail, wit)
        else:
            other += 1
            rep.note("finding of another property seen by this leg (reported by that property's check): " + sig)
    rep.count("findings_for_other_properties", other)
    if rep.d["counters"].get("commands_acked", 0) == 0:
        rep.inconclusive("no command was acknowledged")
    rep.write(args.out)


if __name__ == "__main__":
    main()
