"""Shared plumbing for the end-to-end legs: the real server binaries of /repo (built from its working tree, release
profile with panic=abort as shipped, no hooks) are started as child processes, driven over real TCP sockets, killed,
restarted, and optionally run under strace so that every write / fsync / rename / socket send of the process becomes an
event in one totally ordered log (ptrace stops each thread at syscall exit until the tracer has logged it, so an event
that causally follows another is logged after it).

Report format = the one `vh` writes (merged by /verif/check)."""
import os, sys, json, time, socket, subprocess, signal, random, re, hashlib, shutil, threading

ROOT = os.path.dirname(os.path.dirname(os.path.abspath(__file__)))


# ----------------------------------------------------------------------------------------------- args / report
class Args:
    def __init__(self, argv):
        self.tier, self.seed, self.out, self.shard, self.shards, self.replay = "quick", 1, None, 0, 1, None
        self.extra = {}
        i = 0
        while i < len(argv):
            k = argv[i]
            v = argv[i + 1] if i + 1 < len(argv) else ""
            if k == "--tier":
                self.tier = v
            elif k == "--seed":
                self.seed = int(v)
            elif k == "--out":
                self.out = v
            elif k == "--shard":
                a, b = v.split("/")
                self.shard, self.shards = int(a), int(b)
            elif k == "--replay":
                self.replay = v
            elif k.startswith("--"):
                self.extra[k[2:]] = v
            else:
                i += 1
                continue
            i += 2

    def thorough(self):
        return self.tier == "thorough"

    def get_int(self, k, d):
        try:
            return int(self.extra.get(k, d))
        except ValueError:
            return d

    def rng(self, stream=0):
        return random.Random("%d/%d/%d" % (self.seed, self.shard, stream))


def h64(x):
    return int(hashlib.sha1(repr(x).encode()).hexdigest()[:15], 16)


class Report:
    def __init__(self, prop, leg):
        self.d = dict(property=prop, leg=leg, evaluations=0, distinct=set(), counters={}, samples=[], violations=[],
                      inconclusive=[], exhaustive=False, notes=[], wall_s=0.0)
        self.t0 = time.time()
        self.sigs = set()

    def count(self, k, n=1):
        self.d["counters"][k] = self.d["counters"].get(k, 0) + n

    def maxc(self, k, v):
        k = "max:" + k
        self.d["counters"][k] = max(self.d["counters"].get(k, 0), v)

    def distinct(self, x):
        self.d["distinct"].add(h64(x))

    def sample(self, x):
        if len(self.d["samples"]) < 4:
            self.d["samples"].append(x)

    def note(self, s):
        if s not in self.d["notes"]:
            self.d["notes"].append(s)

    def inconclusive(self, s):
        self.d["inconclusive"].append(s)

    def violation(self, sig, detail, witness):
        if sig in self.sigs:
            return
        self.sigs.add(sig)
        self.d["violations"].append(dict(signature=sig, detail=detail[:4000], witness=witness))

    def write(self, path):
        d = dict(self.d)
        d["distinct"] = sorted(d["distinct"])
        d["wall_s"] = round(time.time() - self.t0, 2)
        if path:
            tmp = path + ".tmp"
            json.dump(d, open(tmp, "w"))
            os.replace(tmp, path)
        else:
            d["distinct"] = len(d["distinct"])
            print(json.dumps(d, indent=1)[:6000])


# ----------------------------------------------------------------------------------------------- RESP
def enc(*parts):
    out = [b"*%d\r\n" % len(parts)]
    for p in parts:
        if isinstance(p, str):
            p = p.encode()
        elif isinstance(p, int):
            p = b"%d" % p
        out.append(b"$%d\r\n%s\r\n" % (len(p), p))
    return b"".join(out)


class Incomplete(Exception):
    pass


def parse_one(buf, pos=0):
    """-> (value, new_pos). value: ('+',bytes) ('-',bytes) (':',int) ('$',bytes|None) ('*',list|None). Raises Incomplete / ValueError."""
    if pos >= len(buf):
        raise Incomplete()
    t = buf[pos:pos + 1]
    e = buf.find(b"\r\n", pos)
    if e < 0:
        raise Incomplete()
    line = bytes(buf[pos + 1:e])
    nxt = e + 2
    if t == b"+":
        return ("+", line), nxt
    if t == b"-":
        return ("-", line), nxt
    if t == b":":
        return (":", int(line)), nxt
    if t == b"$":
        n = int(line)
        if n < 0:
            return ("$", None), nxt
        if len(buf) < nxt + n + 2:
            raise Incomplete()
        if buf[nxt + n:nxt + n + 2] != b"\r\n":
            raise ValueError("bulk not terminated")
        return ("$", bytes(buf[nxt:nxt + n])), nxt + n + 2
    if t == b"*":
        n = int(line)
        if n < 0:
            return ("*", None), nxt
        items = []
        p = nxt
        for _ in range(n):
            v, p = parse_one(buf, p)
            items.append(v)
        return ("*", items), p
    raise ValueError("bad type byte %r" % t)


def parse_all(buf):
    """-> (list of values, bytes consumed)"""
    out, pos = [], 0
    while True:
        try:
            v, pos2 = parse_one(buf, pos)
        except Incomplete:
            return out, pos
        out.append(v)
        pos = pos2


class Client:
    def __init__(self, port, timeout=10.0):
        self.s = socket.create_connection(("127.0.0.1", port), timeout=timeout)
        self.s.setsockopt(socket.IPPROTO_TCP, socket.TCP_NODELAY, 1)
        self.buf = bytearray()
        self.garbled = None
        self.local_port = self.s.getsockname()[1]

    def send(self, data):
        self.s.sendall(data)

    def recv_replies(self, n, timeout=10.0):
        """Blocks until n replies are decoded (or timeout/EOF -> returns what it has)."""
        out = []
        self.s.settimeout(timeout)
        while len(out) < n:
            try:
                vals, used = parse_all(self.buf)
            except ValueError as e:
                self.garbled = "%s at %r" % (e, bytes(self.buf[:60]))
                break
            if vals:
                take = vals[: n - len(out)]
                # re-parse to cut exactly
                pos = 0
                for _ in take:
                    _, pos = parse_one(self.buf, pos)
                del self.buf[:pos]
                out.extend(take)
                continue
            try:
                chunk = self.s.recv(65536)
            except (socket.timeout, ConnectionError, OSError):
                break
            if not chunk:
                break
            self.buf.extend(chunk)
        return out

    def cmd(self, *parts, timeout=10.0):
        self.send(enc(*parts))
        r = self.recv_replies(1, timeout)
        return r[0] if r else None

    def close(self):
        try:
            self.s.close()
        except OSError:
            pass


# ----------------------------------------------------------------------------------------------- binaries
def repo_path():
    """The repository the harness is pointed at (scratch worktree when VH_HARNESS is set)."""
    hs = os.environ.get("VH_HARNESS", os.path.join(ROOT, "harness"))
    m = re.search(r'redis-sim\s*=\s*\{\s*path\s*=\s*"([^"]+)"', open(os.path.join(hs, "Cargo.toml")).read())
    return m.group(1) if m else "/repo"


def target_dir():
    return os.environ.get("VH_TARGET", os.path.join(ROOT, "target"))


def bin_path(name):
    return os.path.join(target_dir(), "repobin", "release", name)


def build_bins():
    """Build the real server binaries from the repository's working tree: release profile as shipped (panic=abort), minus
    LTO / single codegen unit / strip (build time only). No hooks, no cfg."""
    env = dict(os.environ, RUSTC_WRAPPER="", CARGO_NET_OFFLINE="true", CARGO_TERM_COLOR="never",
               CARGO_TARGET_DIR=os.path.join(target_dir(), "repobin"))
    env.pop("RUSTFLAGS", None)
    cmd = ["cargo", "build", "--offline", "--release", "--bin", "server-persistent", "--bin", "redis-server-optimized", "--bin", "maelstrom-kv-replicated",
           "--manifest-path", os.path.join(repo_path(), "Cargo.toml"),
           "--config", 'profile.release.lto="off"', "--config", "profile.release.codegen-units=16",
           "--config", "profile.release.strip=false"]
    p = subprocess.run(cmd, cwd=os.path.join(ROOT, "harness"), env=env, stdout=subprocess.PIPE, stderr=subprocess.STDOUT, text=True)
    if p.returncode != 0:
        raise RuntimeError("build of the server binaries failed:\n" + "\n".join(p.stdout.splitlines()[-40:]))


def port_free(p):
    s = socket.socket()
    try:
        s.setsockopt(socket.SOL_SOCKET, socket.SO_REUSEADDR, 1)
        s.bind(("0.0.0.0", p))
        return True
    except OSError:
        return False
    finally:
        s.close()


_port_lock = threading.Lock()


def alloc_ports(shard, n=2):
    """n consecutive free ports, reserved machine-wide through O_EXCL marker files (several shards and checks run at once)."""
    resdir = os.path.join("/tmp", "vh-e2e-ports")
    os.makedirs(resdir, exist_ok=True)
    rnd = random.Random(os.getpid() * 7919 + int(time.time() * 1e6) % 1000003)
    with _port_lock:
        for _ in range(5000):
            base = rnd.randrange(21000, 60000, 4)
            marks = []
            try:
                for i in range(n):
                    fd = os.open(os.path.join(resdir, str(base + i)), os.O_CREAT | os.O_EXCL | os.O_WRONLY)
                    os.write(fd, str(os.getpid()).encode())
                    os.close(fd)
                    marks.append(base + i)
            except FileExistsError:
                # stale reservation of a process that is gone?
                for m_ in marks:
                    os.unlink(os.path.join(resdir, str(m_)))
                try:
                    owner = int(open(os.path.join(resdir, str(base + len(marks)))).read() or "0")
                    if owner and not os.path.exists("/proc/%d" % owner):
                        os.unlink(os.path.join(resdir, str(base + len(marks))))
                except (OSError, ValueError):
                    pass
                continue
            if all(port_free(base + i) for i in range(n)):
                _reserved.extend(marks)
                return base
            for m_ in marks:
                os.unlink(os.path.join(resdir, str(m_)))
    raise RuntimeError("no free ports")


_reserved = []


def release_ports():
    for p in _reserved:
        try:
            os.unlink(os.path.join("/tmp", "vh-e2e-ports", str(p)))
        except OSError:
            pass
    del _reserved[:]


import atexit
atexit.register(release_ports)


STRACE_CALLS = "openat,creat,write,pwrite64,writev,sendto,sendmsg,fsync,fdatasync,sync_file_range,rename,renameat,renameat2,unlink,unlinkat,ftruncate,truncate,close,accept4,accept,lseek"


class Server:
    """One incarnation of a server binary."""

    def __init__(self, binary, env, port, trace_path=None, log_path=None):
        self.port = port
        self.trace_path = trace_path
        e = dict(os.environ)
        e.update(env)
        e["RUST_LOG"] = e.get("RUST_LOG", "warn")
        self.log_path = log_path
        out = open(log_path, "ab") if log_path else subprocess.DEVNULL
        argv = [binary]
        if trace_path:
            argv = ["strace", "-f", "-yy", "-xx", "-s", "16777216", "-o", trace_path, "-e", "trace=" + STRACE_CALLS, binary]
        self.p = subprocess.Popen(argv, env=e, stdout=out, stderr=subprocess.STDOUT, stdin=subprocess.DEVNULL, start_new_session=True)
        self.server_pid = None

    def pid(self):
        """pid of the server process itself (the tracee when run under strace)."""
        if not self.trace_path:
            return self.p.pid
        if self.server_pid:
            return self.server_pid
        for _ in range(200):
            try:
                kids = open("/proc/%d/task/%d/children" % (self.p.pid, self.p.pid)).read().split()
            except OSError:
                kids = []
            if kids:
                self.server_pid = int(kids[0])
                return self.server_pid
            time.sleep(0.01)
        return None

    def wait_ready(self, timeout=30.0):
        t0 = time.time()
        while time.time() - t0 < timeout:
            if self.p.poll() is not None:
                return False
            try:
                s = socket.create_connection(("127.0.0.1", self.port), timeout=0.5)
                s.close()
            except OSError:
                time.sleep(0.001)
                continue
            # The client port answers, but the process binds its other listeners (health check, gossip) around the same
            # time: if one of those loses a port race it exits a moment after having accepted here. A short grace period
            # turns that into "did not come up" (which every caller answers by starting again), instead of a connection
            # refused in the middle of a case.
            time.sleep(0.12)
            if self.p.poll() is not None:
                return False
            try:
                s = socket.create_connection(("127.0.0.1", self.port), timeout=0.5)
                s.close()
                return True
            except OSError:
                continue
        return False

    def alive(self):
        return self.p.poll() is None

    def kill9(self):
        pid = self.pid()
        try:
            if pid:
                os.kill(pid, signal.SIGKILL)
        except ProcessLookupError:
            pass
        try:
            self.p.wait(timeout=10)
        except subprocess.TimeoutExpired:
            try:
                os.killpg(self.p.pid, signal.SIGKILL)
            except ProcessLookupError:
                pass
            self.p.wait(timeout=10)

    def sigint(self, timeout=30.0):
        """Graceful shutdown; -> True when the process ended by itself within the timeout."""
        pid = self.pid()
        try:
            os.kill(pid, signal.SIGINT)
        except ProcessLookupError:
            pass
        try:
            self.p.wait(timeout=timeout)
            return True
        except subprocess.TimeoutExpired:
            self.kill9()
            return False


# ----------------------------------------------------------------------------------------------- strace log
_LINE = re.compile(r"^(\d+)\s+(.*)$")
_CALL = re.compile(r"^(\w+)\((.*)$")
_RESUMED = re.compile(r"^<\.\.\. (\w+) resumed>(.*)$")
_FD = re.compile(r"^(\d+)<(.*?)>(?:,|\)|$)")


def _unhex(s):
    """strace -xx string body (\\xHH...) -> bytes"""
    return bytes.fromhex(s.replace("\\x", ""))


def _split_ret(rest):
    """'args...) = ret ...' -> (args, ret:int|None, errno text)"""
    ms = list(re.finditer(r"\)\s+= ", rest))
    if not ms:
        return rest, None, ""
    args, tail = rest[:ms[-1].start()], rest[ms[-1].end():].strip()
    m = re.match(r"^(-?\d+)(.*)$", tail)
    if not m:
        return args, None, tail
    return args, int(m.group(1)), m.group(2).strip()


def _first_string(args):
    """first "..." literal in args -> (bytes, truncated?)"""
    i = args.find('"')
    if i < 0:
        return None, False
    j = args.find('"', i + 1)
    body = args[i + 1:j]
    return _unhex(body), args[j + 1:j + 4] == "..."


def _strings(args):
    return [_unhex(m) for m in re.findall(r'"((?:\\x[0-9a-f]{2})*)"', args)]


def parse_trace(path):
    """-> list of events in log order. Each: dict(pos, pid, call, phase ('enter'|'exit'|'full'), fd, path, data, ret, args).
    For a call logged on one line phase='full' (entered and finished at this position). 'enter' lines carry the arguments,
    'exit' lines the return value; exit events are merged with the arguments of their enter line."""
    events = []
    pending = {}
    with open(path, "r", errors="replace") as f:
        for pos, raw in enumerate(f):
            m = _LINE.match(raw.rstrip("\n"))
            if not m:
                continue
            pid, rest = int(m.group(1)), m.group(2)
            if rest.startswith("+++") or rest.startswith("---"):
                events.append(dict(pos=pos, pid=pid, call="signal" if rest.startswith("---") else "exit_proc", phase="full", raw=rest[:200]))
                continue
            r = _RESUMED.match(rest)
            if r:
                call, tail = r.group(1), r.group(2)
                ent = pending.pop((pid, call), None)
                args_tail, ret, err = _split_ret(tail)
                ev = dict(ent or dict(call=call, args=""))
                ev.update(pos=pos, pid=pid, phase="exit", ret=ret, err=err, args=(ev.get("args", "") + args_tail))
                _decorate(ev)
                events.append(ev)
                continue
            c = _CALL.match(rest)
            if not c:
                continue
            call, tail = c.group(1), c.group(2)
            if tail.endswith("<unfinished ...>"):
                ev = dict(pos=pos, pid=pid, call=call, phase="enter", args=tail[: -len("<unfinished ...>")].rstrip(), ret=None, err="")
                _decorate(ev)
                pending[(pid, call)] = ev
                events.append(ev)
                continue
            args, ret, err = _split_ret(tail)
            ev = dict(pos=pos, pid=pid, call=call, phase="full", args=args, ret=ret, err=err)
            _decorate(ev)
            events.append(ev)
    return events


def _decorate(ev):
    a = ev.get("args", "")
    m = _FD.match(a)
    if m:
        ev["fd"], ev["path"] = int(m.group(1)), m.group(2)
        if ev["path"].startswith("\\x"):
            try:
                ev["path"] = _unhex(ev["path"]).decode("utf-8", "replace")
            except ValueError:
                pass
    if ev["call"] in ("write", "pwrite64", "sendto") and "data" not in ev:
        d, trunc = _first_string(a)
        if d is not None:
            ev["data"], ev["truncated"] = d, trunc
    if ev["call"] in ("openat", "creat", "rename", "renameat", "renameat2", "unlink", "unlinkat", "truncate"):
        ev["strs"] = _strings(a)
        ev["flags"] = a


class FsImage:
    """Reconstructs what is on disk under `root` from the event log: per file the bytes written (sequential writes from
    an O_TRUNC/O_CREAT open, which is all these processes do) and the length covered by the last completed fsync of that
    file (length at the time the fsync call was *entered*)."""

    def __init__(self, root, initial=None):
        self.root = root
        self.files = {}     # path -> bytearray
        self.synced = {}    # path -> int
        self.pending_sync = {}  # (pid) -> (path, len at entry)
        self.anomalies = []
        for p, b in (initial or {}).items():
            self.files[p] = bytearray(b)
            self.synced[p] = len(b)   # what an earlier incarnation left is taken as durable (it was checked in its own run)

    def apply(self, ev):
        c, ph = ev["call"], ev["phase"]
        path = ev.get("path")
        if c in ("openat", "creat") and ph in ("full", "exit"):
            if ev.get("ret") is None or ev["ret"] < 0 or not ev.get("strs"):
                return
            p = ev["strs"][0].decode("utf-8", "replace")
            if not p.startswith(self.root):
                return
            fl = ev.get("flags", "")
            if "O_TRUNC" in fl or c == "creat":
                self.files[p] = bytearray()
                self.synced[p] = 0
            elif "O_CREAT" in fl and p not in self.files:
                self.files[p] = bytearray()
                self.synced[p] = 0
            elif ("O_WRONLY" in fl or "O_RDWR" in fl) and "O_APPEND" not in fl and p in self.files and len(self.files[p]) > 0:
                self.anomalies.append("file %s reopened for writing without O_TRUNC/O_APPEND" % p)
        elif c in ("write",) and ph in ("full", "exit"):
            if path and path.startswith(self.root) and ev.get("ret") is not None and ev["ret"] > 0:
                d = ev.get("data")
                if d is None or ev.get("truncated"):
                    self.anomalies.append("write to %s without captured data" % path)
                    d = b"\0" * ev["ret"]
                self.files.setdefault(path, bytearray()).extend(d[: ev["ret"]])
                self.synced.setdefault(path, 0)
        elif c in ("pwrite64", "writev", "lseek", "ftruncate", "truncate", "sync_file_range") and path and path.startswith(self.root):
            self.anomalies.append("%s on %s (not modelled)" % (c, path))
        elif c in ("fsync", "fdatasync"):
            if not path or not path.startswith(self.root):
                return
            if ph in ("enter", "full"):
                self.pending_sync[ev["pid"]] = (path, len(self.files.get(path, b"")))
            if ph in ("exit", "full"):
                ent = self.pending_sync.pop(ev["pid"], None)
                if ent and ev.get("ret") == 0:
                    self.synced[ent[0]] = max(self.synced.get(ent[0], 0), ent[1])
        elif c in ("rename", "renameat", "renameat2") and ph in ("full", "exit"):
            if ev.get("ret") == 0 and len(ev.get("strs", [])) >= 2:
                a, b = ev["strs"][0].decode("utf-8", "replace"), ev["strs"][1].decode("utf-8", "replace")
                if a in self.files:
                    self.files[b] = self.files.pop(a)
                    self.synced[b] = self.synced.pop(a, 0)
        elif c in ("unlink", "unlinkat") and ph in ("full", "exit"):
            if ev.get("ret") == 0 and ev.get("strs"):
                p = ev["strs"][0].decode("utf-8", "replace")
                self.files.pop(p, None)
                self.synced.pop(p, None)

    def materialise(self, dest_root, sub, variant):
        """Write the files under root/sub to dest_root/sub. variant: 'synced' (every byte not covered by a completed fsync
        of its file is gone) | 'written' (page cache survived: everything written so far)."""
        n = 0
        pre = os.path.join(self.root, sub)
        for p, b in self.files.items():
            if not p.startswith(pre + "/"):
                continue
            data = bytes(b) if variant == "written" else bytes(b[: self.synced.get(p, 0)])
            dst = os.path.join(dest_root, os.path.relpath(p, self.root))
            os.makedirs(os.path.dirname(dst), exist_ok=True)
            with open(dst, "wb") as f:
                f.write(data)
            n += 1
        os.makedirs(os.path.join(dest_root, sub), exist_ok=True)
        return n


def read_tree(root):
    out = {}
    for dp, _, fns in os.walk(root):
        for fn in fns:
            p = os.path.join(dp, fn)
            try:
                out[p] = open(p, "rb").read()
            except OSError:
                pass
    return out
