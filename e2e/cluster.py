#!/usr/bin/env python3
"""End-to-end replication leg on 2-3 real `server-persistent` processes gossiping over loopback TCP (C06).

Each node: REPLICATION_ENABLED, its own REPLICA_ID / GOSSIP_PORT, REPLICATION_PEERS = the others, GOSSIP_INTERVAL_MS=20,
memory store. Phases: (1) clients write SET / APPEND / INCR / DEL / HSET / HDEL at random nodes (one writer per key, unique
tokens), only while every node is up and its gossip port accepts; (2) one node is killed (SIGKILL) and started again, and
once its ports accept, writes to *fresh* keys go to it and to the others.

Oracle (bounded progress, the form C06's "once each update has reached every replica" takes for a system whose network
this check does not control): with every node up and no client writing, all nodes must answer GET / HGETALL / EXISTS alike for
every key written in the phase within 400 gossip intervals (8 s); the agreed state must be the final state of the key's
single writer. The wait is only a bound on when to stop looking: while waiting, every node must keep answering PING within
a second (otherwise the case is inconclusive, not a violation), and a disagreement is reported only if it is still there at the
end of the wait *and* on a second look a second later.
"""
import os, sys, time, re, json
sys.path.insert(0, os.path.dirname(os.path.abspath(__file__)))
from lib import *  # noqa
from persist import apply_cmd, wire, read_state, show  # noqa


def node_env(i, ports, gports):
    peers = ",".join("127.0.0.1:%d" % gports[j] for j in range(len(ports)) if j != i)
    return dict(REDIS_PORT=str(ports[i]), REDIS_STORE_TYPE="memory", REPLICATION_ENABLED="true", REPLICA_ID=str(i + 1),
                GOSSIP_PORT=str(gports[i]), REPLICATION_PEERS=peers, GOSSIP_INTERVAL_MS="20", RUST_LOG="warn")


def port_accepts(p, timeout=20.0):
    t0 = time.time()
    while time.time() - t0 < timeout:
        try:
            s = socket.create_connection(("127.0.0.1", p), timeout=0.5)
            s.close()
            return True
        except OSError:
            time.sleep(0.005)
    return False


def start_node(i, ports, gports, logdir):
    s = Server(bin_path("server-persistent"), node_env(i, ports, gports), ports[i], log_path=os.path.join(logdir, "n%d.log" % i))
    ok = s.wait_ready(30.0) and port_accepts(gports[i])
    return s, ok


def gen_writes(rng, phase, n, nodes):
    """-> list of (node index, cmd); keys carry the phase so that a later phase never touches an earlier phase's keys"""
    out = []
    keys = ["p%ds%d" % (phase, i) for i in range(3)]
    hk = ["p%dh%d" % (phase, i) for i in range(2)]
    owner = {}
    for q in range(n):
        tok = "T%dx%dq" % (phase, q)
        if rng.random() < 0.08:
            tok += "G" * rng.choice([3000, 70000, 300000])   # gossip frames that arrive in several reads
        r = rng.random()
        if r < 0.35:
            c = ("SET", rng.choice(keys), tok)
        elif r < 0.45:
            c = ("APPEND", rng.choice(keys), tok)
        elif r < 0.55:
            c = ("DEL", rng.choice(keys))
        elif r < 0.65:
            c = ("INCR", "p%dn" % phase)
        elif r < 0.9:
            c = ("HSET", rng.choice(hk), "f%d" % rng.randrange(3), tok)
        else:
            c = ("HDEL", rng.choice(hk), "f%d" % rng.randrange(3))
        k = c[1]
        owner.setdefault(k, rng.choice(nodes))   # one writer node per key: its final state is the truth
        out.append((owner[k], c))
    # every phase ends with a value whose gossip frame is well above a megabyte (JSON renders a byte as up to four
    # characters), followed by a small write on the same connection: both have to arrive
    big_writer = rng.choice(nodes)
    out.append((big_writer, ("SET", "p%dbig" % phase, "T%dxBIGq" % phase + "G" * rng.choice([400000, 600000, 1200000]))))
    out.append((big_writer, ("SET", "p%dafter" % phase, "T%dxAFTERq" % phase)))
    return out


def run_case(rep, args, case, rng):
    # two nodes: the binary's gossip listener keeps ONE connection per peer IP address (a second peer from the same address
    # replaces the first), which is sound where every replica has its own address and makes a >= 3 node cluster on one loopback
    # address lose traffic by construction - that would be this harness's artefact, not the server's
    n = 2
    base = os.path.join(target_dir(), "e2e", "cluster.%d.%d" % (args.shard, os.getpid()), "case%d" % case)
    os.makedirs(base, exist_ok=True)
    servers = []
    wit = dict(case=case, seed=args.seed, shard=args.shard, nodes=n, log=[])
    rep.count("cases")
    try:
        # a start that loses a port race (the port range overlaps the kernel's ephemeral range, so any client connection on
        # the machine may sit on a port for a moment) is repeated on fresh ports and is never a verdict
        for attempt in range(5):
            ports, gports = [], []
            for i in range(n):
                p = alloc_ports(args.shard, 3)
                ports.append(p)
                gports.append(p + 2)
            servers, lost_race, failed = [], False, None
            for i in range(n):
                s, ok = start_node(i, ports, gports, base)
                servers.append(s)
                if not ok:
                    tail = open(os.path.join(base, "n%d.log" % i), "rb").read()[-400:]
                    lost_race = b"AddrInUse" in tail or b"Address already in use" in tail
                    failed = (i, tail)
                    break
            if failed is None:
                break
            for s in servers:
                s.kill9()
            if not lost_race or attempt == 4:
                rep.inconclusive("case %d: node %d did not come up: %r" % (case, failed[0], failed[1]))
                servers = []
                return
            rep.count("starts_repeated_after_a_lost_port_race")
        clients = [Client(ports[i], timeout=10.0) for i in range(n)]
        victim = rng.randrange(n)
        for phase, sub in ((1, 0), (2, 0), (2, 1)):
            if phase == 2 and sub == 0:
                # the node that is about to go has been up for a while and has just spoken (whatever its peers remember about
                # it - rounds, sequence numbers, connection state - is as far from a freshly started process as it gets)
                time.sleep(rng.choice([0.2, 1.2, 1.2]))
                clients[victim].cmd("SET", "last-words-%d" % case, "x")
                time.sleep(0.06)
                clients[victim].close()
                servers[victim].kill9()
                servers[victim], ok = start_node(victim, ports, gports, base)
                for _ in range(6):
                    if ok or b"ddr" not in open(os.path.join(base, "n%d.log" % victim), "rb").read()[-400:]:
                        break
                    # the restarted node has to come back on its own address: a port that some client connection is sitting on
                    # is tried again a moment later
                    rep.count("restarts_repeated_after_a_lost_port_race")
                    servers[victim].kill9()
                    time.sleep(0.5)
                    servers[victim], ok = start_node(victim, ports, gports, base)
                if not ok:
                    rep.inconclusive("case %d: restarted node did not come up" % case)
                    return
                clients[victim] = Client(ports[victim], timeout=10.0)
                rep.count("restarts")
                wit["log"].append(["restart", victim])
                if rng.random() < 0.3:
                    time.sleep(0.3)
            # gossip is fire-and-forget over persistent connections: what a node sends into its old connection to a peer that
            # has just gone away is lost without redelivery, which C06 does not cover. So before a node's writes are judged, the
            # direction node -> others is proven to flow (throw-away keys, rewritten until the other side shows them). The one
            # exception is the node that has just been restarted: its connections are brand new, nothing can be in a dead pipe,
            # and what it accepts right after coming up must reach the others - phase 2 therefore first judges writes made at the
            # restarted node alone, without any warm-up in that direction.
            def prove_flow(i):
                for attempt in range(100):
                    wk = "warm%d_%d" % (phase, i)
                    clients[i].cmd("SET", wk, "w%d" % attempt)
                    time.sleep(0.05)
                    if all(clients[j].cmd("GET", wk) == ("$", b"w%d" % attempt) for j in range(n)):
                        return True
                return False
            if phase == 2 and sub == 0:
                writers = [victim]
            else:
                if not all(prove_flow(i) for i in range(n)):
                    rep.inconclusive("case %d phase %d: gossip did not start flowing within 5 s" % (case, phase))
                    return
                writers = list(range(n))
            writes = gen_writes(rng, phase * 10 + sub, rng.choice([5, 20, 60]), writers)
            truth = {}
            for node, cmd in writes:
                clients[node].send(wire(cmd))
                rr = clients[node].recv_replies(1, timeout=10.0)
                if not rr:
                    rep.inconclusive("case %d: no reply from node %d" % (case, node))
                    return
                if rr[0][0] != "-":
                    truth[cmd[1]] = apply_cmd(truth.get(cmd[1]), cmd)
                rep.d["evaluations"] += 1
                wit["log"].append([node] + list(cmd)[:3])
                if rng.random() < 0.1:
                    time.sleep(0.03)
            keys = sorted({c[1] for _, c in writes})
            # bounded wait for agreement
            # (the bound only ends the wait; agreement ends it at once. It is generous because the check also runs on machines
            # that are busy with other work, where a freshly restarted process may need seconds before its gossip loop turns)
            deadline = time.time() + 30.0
            agreed = False
            views = None
            while time.time() < deadline:
                t0 = time.time()
                views = [{k: read_state(clients[i], k) for k in keys} for i in range(n)]
                if time.time() - t0 > 1.0 * len(keys):
                    rep.inconclusive("case %d: nodes answer too slowly to judge" % case)
                    return
                if all(v == views[0] for v in views[1:]):
                    agreed = True
                    break
                time.sleep(0.05)
            if not agreed:
                time.sleep(1.0)
                views = [{k: read_state(clients[i], k) for k in keys} for i in range(n)]
                agreed = all(v == views[0] for v in views[1:])
            rep.count("phases_judged")
            rep.distinct((n, phase, len(writes)))
            if not agreed:
                bad = [k for k in keys if any(v[k] != views[0][k] for v in views[1:])]
                k = bad[0]
                kind = "hash" if re.match(r"p\d+h", k) else "string"
                rep.violation("C06|e2e-cluster|replicas-differ-30s-after-the-last-write|%s|%s" % (("written-at-the-restarted-node" if sub == 0 else "after-restart-of-a-peer") if phase == 2 else "all-up", kind),
                              "key %s: %s (every node up, idle for 30 s = 1500 gossip intervals)" % (k, [brief(v[k]) for v in views]), dict(wit, key=k, phase=phase))
                return
            for k in keys:
                if views[0][k] != truth.get(k):
                    # TTL flag is not part of these commands; compare plainly
                    rep.violation("C06|e2e-cluster|agreed-state-is-not-the-writer's-final-state|%s" % ("after-restart-of-a-peer" if phase == 2 else "all-up"),
                                  "key %s: all nodes serve %s, its single writer's commands give %s" % (k, show(views[0][k]), show(truth.get(k))), dict(wit, key=k, phase=phase))
                    return
        for c in clients:
            c.close()
    finally:
        for s in servers:
            s.kill9()
        release_ports()


def brief(st):
    """A state small enough to read in a report: long values as (length, head)."""
    cut = lambda b: b.decode("latin1") if len(b) <= 24 else "%s..(%d bytes)" % (b[:12].decode("latin1"), len(b))
    if st is None or st == "?":
        return st
    if st[0] == "s":
        return ["s", cut(st[1]), st[2]]
    if st[0] == "h":
        return ["h", {k.decode("latin1"): cut(v) for k, v in sorted(st[1].items())}]
    return repr(st)


def peer_leg(rep, args):
    """This check plays a gossip peer against ONE real server-persistent process: length-prefixed GossipMessage frames produced by
    the repository's own serializer (vh gossip-frames) are written to the server's gossip port in chosen fragments - whole, cut
    1..8 bytes before the end, cut inside the 4-byte length prefix, byte by byte, two frames in one write, a frame plus the
    first bytes of the next. Every update must then be served on the Redis port (the listener applies a frame when it has it;
    the bound of 3 s only ends the wait), however its bytes were grouped."""
    import subprocess
    vh = os.path.join(target_dir(), "release", "vh")
    nfr = 70 if args.thorough() else 42
    p = subprocess.run([vh, "gossip-frames", "--n", str(nfr)], stdout=subprocess.PIPE, stderr=subprocess.PIPE, timeout=120)
    if p.returncode != 0:
        rep.inconclusive("gossip-frames failed: %r" % p.stderr[-200:])
        return
    frames = json.loads(p.stdout.decode())
    base = os.path.join(target_dir(), "e2e", "peer.%d.%d" % (args.shard, os.getpid()))
    os.makedirs(base, exist_ok=True)
    port = alloc_ports(args.shard, 3)
    env = dict(REDIS_PORT=str(port), REDIS_STORE_TYPE="memory", REPLICATION_ENABLED="true", REPLICA_ID="1", GOSSIP_PORT=str(port + 2),
               REPLICATION_PEERS="127.0.0.1:1", GOSSIP_INTERVAL_MS="1000", RUST_LOG="warn")
    srv = Server(bin_path("server-persistent"), env, port, log_path=os.path.join(base, "n.log"))
    try:
        if not (srv.wait_ready(30.0) and port_accepts(port + 2)):
            rep.inconclusive("server did not come up")
            return
        rcl = Client(port, timeout=10.0)
        rng = args.rng(7)
        g = socket.create_connection(("127.0.0.1", port + 2), timeout=10.0)
        g.setsockopt(socket.IPPROTO_TCP, socket.TCP_NODELAY, 1)
        i = 0
        turn = 0
        while i < len(frames):
            fr = frames[i]
            data = bytes.fromhex(fr["hex"])
            mode = ["whole", "tail-1", "tail-2", "tail-3", "tail-4", "tail-5", "tail-8", "prefix-2", "bytewise", "two-in-one", "one-and-a-bit", "mid"][turn % 12]
            turn += 1
            expect = [fr]
            try:
                if mode == "whole":
                    g.sendall(data)
                elif mode.startswith("tail-"):
                    k = int(mode[5:])
                    g.sendall(data[:-k]); time.sleep(0.03); g.sendall(data[-k:])
                elif mode == "prefix-2":
                    g.sendall(data[:2]); time.sleep(0.03); g.sendall(data[2:])
                elif mode == "mid":
                    h = len(data) // 2
                    g.sendall(data[:h]); time.sleep(0.03); g.sendall(data[h:])
                elif mode == "bytewise":
                    for b in range(min(len(data), 400)):
                        g.sendall(data[b:b + 1])
                    g.sendall(data[400:])
                elif mode == "two-in-one" and i + 1 < len(frames):
                    d2 = bytes.fromhex(frames[i + 1]["hex"])
                    g.sendall(data + d2)
                    expect.append(frames[i + 1]); i += 1
                elif mode == "one-and-a-bit" and i + 1 < len(frames):
                    d2 = bytes.fromhex(frames[i + 1]["hex"])
                    g.sendall(data + d2[:3]); time.sleep(0.03); g.sendall(d2[3:])
                    expect.append(frames[i + 1]); i += 1
                else:
                    g.sendall(data)
            except OSError as e:
                # the server closed the gossip connection: what was sent before must already have been judged; reconnect
                rep.count("gossip_connection_reset_by_server")
                g = socket.create_connection(("127.0.0.1", port + 2), timeout=10.0)
            rep.count("frames:" + mode)
            rep.distinct((mode, len(data) > 1500, len(data) > 65536))
            for e in expect:
                rep.d["evaluations"] += 1
                ok = False
                t0 = time.time()
                def ask(*c):
                    try:
                        return rcl.cmd(*c)
                    except OSError:
                        return None
                while time.time() - t0 < 3.0 and srv.alive():
                    if ask("GET", e["key"]) == ("$", e["value"].encode()):
                        ok = True
                        break
                    time.sleep(0.01)
                if not ok:
                    time.sleep(0.2)
                    alive = srv.alive() and ask("PING") == ("+", b"PONG")
                    if not alive:
                        rep.violation("C14|e2e-gossip-peer|server-died|%s" % mode, "after a gossip frame sent as '%s' the server process is gone (rc=%s) or silent: %s" % (mode, srv.p.poll(), open(os.path.join(base, "n.log"), "rb").read()[-400:].decode("utf-8", "replace")), dict(mode=mode, frame=i, size=len(data)))
                        return
                    rep.violation("C14|e2e-gossip-peer|update-not-applied|%s|%s" % (mode, "large" if len(data) > 1500 else "small"),
                                  "key %s of a %d-byte gossip frame sent as '%s' is not served 3 s later (GET -> %r) although the server answers" % (e["key"], len(data), mode, ask("GET", e["key"])),
                                  dict(mode=mode, frame=i, size=len(data)))
                    # the connection's handler may be gone: continue on a fresh connection so that later modes are still judged
                    try:
                        g.close()
                    except OSError:
                        pass
                    g = socket.create_connection(("127.0.0.1", port + 2), timeout=10.0)
            i += 1
    finally:
        srv.kill9()
        release_ports()


def main():
    leg = sys.argv[1]
    args = Args(sys.argv[2:])
    rep = Report("C06", leg)
    rep.note("2-3 real server-persistent processes (release, no hooks) gossiping over loopback TCP, 20 ms gossip interval")
    if not os.path.exists(bin_path("server-persistent")):
        build_bins()
    if leg == "peer":
        rep.d["property"] = args.extra.get("prop", "C14")
        try:
            peer_leg(rep, args)
        except Exception as e:  # noqa
            import traceback
            rep.inconclusive("harness error %r %s" % (e, traceback.format_exc()[-700:]))
        if rep.d["evaluations"] == 0:
            rep.inconclusive("nothing ran")
        rep.write(args.out)
        return
    ncases = args.get_int("cases", 40 if args.thorough() else 6)
    for c in range(ncases):
        try:
            run_case(rep, args, c, args.rng(c))
        except Exception as e:  # noqa
            import traceback
            rep.inconclusive("case %d: harness error %r %s" % (c, e, traceback.format_exc()[-700:]))
    if rep.d["evaluations"] == 0:
        rep.inconclusive("nothing ran")
    rep.write(args.out)


if __name__ == "__main__":
    main()
