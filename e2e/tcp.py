#!/usr/bin/env python3
"""End-to-end connection legs on the real server binaries over loopback TCP (kernel socket buffers, partial writes, the
real accept loop, panic=abort as shipped).

usage: tcp.py <leg> --prop C04|C15 --server optimized|persistent [--tier ..] [--seed ..] [--shard i/n] [--out report.json]

legs
  pipeline   command streams (1-400 commands; unique tokens; values up to 512 KiB; MULTI blocks; unknown commands; wrong
             arity; mixed-case names) are written to server A in arbitrary fragments (whole / random cuts / byte-wise /
             frame-wise, optional pauses), by 1-4 connections at once (disjoint key prefixes), with a prompt, a slow or a
             late reader (requests small, replies megabytes: the server's socket fills up). The decoded replies must be,
             one per command and in order, what twin server B (same binary, fresh process) answers when the same commands
             are sent one at a time, each awaited. Unordered replies are compared as multisets.
  malformed  unambiguous protocol errors after 0-3 valid commands: the earlier replies must arrive unchanged, followed by an
             error reply (or the connection is closed after it); the server process must survive (a new connection answers
             PING). No verdict is taken from a wall-clock wait: a connection that stays silent is reported as such only when
             the process is alive, idle (answers a fresh PING) and two further probes went unanswered.
"""
import os, sys, time, threading, socket, random
sys.path.insert(0, os.path.dirname(os.path.abspath(__file__)))
from lib import *  # noqa

UNORDERED = {"SMEMBERS", "HGETALL", "HKEYS", "HVALS", "KEYS", "SUNION", "SINTER", "SDIFF"}


def norm(cmdname, v):
    if cmdname.upper() in UNORDERED and v and v[0] == "*" and v[1] is not None:
        if cmdname.upper() == "HGETALL":
            items = v[1]
            pairs = sorted((repr(items[i]), repr(items[i + 1])) for i in range(0, len(items) - 1, 2))
            return ("*set", pairs)
        return ("*set", sorted(repr(x) for x in v[1]))
    return v


def gen_stream(rng, cid, n, big_ok):
    """-> list of (name, wire bytes). Keys carry the connection's prefix so concurrent connections do not interact."""
    ks = ["c%d:k%d" % (cid, i) for i in range(4)]
    out = []
    seq = [0]

    def tok():
        seq[0] += 1
        return "t%dx%d" % (cid, seq[0])

    def case(s):
        r = rng.random()
        return s if r < 0.6 else (s.lower() if r < 0.8 else "".join(ch.lower() if rng.random() < 0.5 else ch for ch in s))

    bigvals = {}
    i = 0
    while i < n:
        r = rng.random()
        k = rng.choice(ks)
        if r < 0.16:
            v = tok()
            if big_ok and rng.random() < 0.12:
                v = v + "B" * rng.choice([5000, 70000, 300000, 520000])
            out.append(("SET", enc(case("SET"), k, v)))
        elif r < 0.34:
            out.append(("GET", enc(case("GET"), k)))
        elif r < 0.38:
            out.append(("APPEND", enc("APPEND", k, tok())))
        elif r < 0.42:
            out.append(("INCR", enc(rng.choice(["INCR", "DECR"]), "c%d:n" % cid)))
        elif r < 0.45:
            out.append(("INCRBY", enc("INCRBY", "c%d:n" % cid, str(rng.choice([1, -7, 2 ** 40, -2 ** 62])))))
        elif r < 0.48:
            out.append(("STRLEN", enc("STRLEN", k)))
        elif r < 0.50:
            out.append(("GETRANGE", enc("GETRANGE", k, str(rng.randrange(-5, 5)), str(rng.randrange(-5, 50)))))
        elif r < 0.53:
            out.append(("DEL", enc("DEL", k, rng.choice(ks))))
        elif r < 0.56:
            out.append(("EXISTS", enc("EXISTS", k, rng.choice(ks), "c%d:none" % cid)))
        elif r < 0.59:
            out.append(("MGET", enc("MGET", *[rng.choice(ks) for _ in range(rng.randrange(1, 5))])))
        elif r < 0.61:
            out.append(("MSET", enc("MSET", k, tok(), rng.choice(ks), tok())))
        elif r < 0.66:
            out.append(("RPUSH", enc(rng.choice(["LPUSH", "RPUSH"]), "c%d:l" % cid, *[tok() for _ in range(rng.randrange(1, 4))])))
        elif r < 0.69:
            out.append(("LRANGE", enc("LRANGE", "c%d:l" % cid, "0", "-1")))
        elif r < 0.71:
            out.append(("LPOP", enc(rng.choice(["LPOP", "RPOP", "LLEN"]), "c%d:l" % cid)))
        elif r < 0.75:
            out.append(("SADD", enc("SADD", "c%d:s" % cid, *["m%d" % rng.randrange(6) for _ in range(rng.randrange(1, 4))])))
        elif r < 0.77:
            out.append(("SMEMBERS", enc("SMEMBERS", "c%d:s" % cid)))
        elif r < 0.79:
            out.append(("SREM", enc(rng.choice(["SREM", "SISMEMBER"]), "c%d:s" % cid, "m%d" % rng.randrange(6))))
        elif r < 0.83:
            out.append(("HSET", enc("HSET", "c%d:h" % cid, "f%d" % rng.randrange(5), tok())))
        elif r < 0.85:
            nm = rng.choice(["HGETALL", "HKEYS", "HVALS"])
            out.append((nm, enc(nm, "c%d:h" % cid)))
        elif r < 0.87:
            out.append(("HGET", enc(rng.choice(["HGET", "HDEL", "HEXISTS"]), "c%d:h" % cid, "f%d" % rng.randrange(5))))
        elif r < 0.90:
            out.append(("ZADD", enc("ZADD", "c%d:z" % cid, str(rng.choice([1, 2, 2, -0.5, 1e10])), "m%d" % rng.randrange(6))))
        elif r < 0.92:
            out.append(("ZRANGE", enc("ZRANGE", "c%d:z" % cid, "0", "-1", "WITHSCORES")))
        elif r < 0.93:
            out.append(("TYPE", enc("TYPE", rng.choice(ks + ["c%d:l" % cid, "c%d:h" % cid]))))
        elif r < 0.95:
            out.append(("PING", enc(*rng.choice([("PING",), ("ECHO", tok()), ("PING", tok())]))))
        elif r < 0.965:
            out.append(("UNKNOWN", enc(rng.choice(["FOO", "Q", "XY", "GETT"]), tok())))
        elif r < 0.98:
            out.append(("ARITY", enc(*rng.choice([("GET",), ("SET", k), ("LPUSH", k), ("HSET", k, "f")]))))
        else:
            body = [("SET", enc("SET", k, tok())), ("INCR", enc("INCR", "c%d:n" % cid)), ("GET", enc("GET", k))][: rng.randrange(1, 4)]
            out.append(("MULTI", enc("MULTI")))
            out.extend(body)
            out.append(("EXEC", enc(rng.choice(["EXEC", "EXEC", "DISCARD"]))))
            i += len(body) + 1
        i += 1
    return out


def cuts(rng, data, frames):
    """-> list of chunks"""
    m = rng.random()
    n = len(data)
    if m < 0.2 or n < 2:
        return [data], "whole"
    if m < 0.3 and n <= 600:
        return [data[i:i + 1] for i in range(n)], "bytewise"
    if m < 0.45:
        out, pos = [], 0
        for f in frames:
            out.append(data[pos:pos + len(f)])
            pos += len(f)
        return out, "framewise"
    k = rng.choice([1, 2, 3, 6, 12])
    pts = sorted(set(rng.randrange(1, n) for _ in range(k)))
    out, last = [], 0
    for p in pts + [n]:
        out.append(data[last:p])
        last = p
    return out, "random%d" % len(pts)


class Pair:
    """Server A (pipelined) and twin B (one at a time): the same binary, two processes."""

    def __init__(self, which, shard, logdir):
        self.which, self.shard, self.logdir = which, shard, logdir
        os.makedirs(logdir, exist_ok=True)
        self.a = self.b = None

    def _start(self, tag):
        name = "redis-server-optimized" if self.which == "optimized" else "server-persistent"
        for _ in range(6):
            port = alloc_ports(self.shard, 2)
            env = dict(REDIS_PORT=str(port), RUST_LOG="error")
            if self.which == "persistent":
                env.update(REDIS_STORE_TYPE="memory")
            log = os.path.join(self.logdir, "%s.log" % tag)
            mark = os.path.getsize(log) if os.path.exists(log) else 0
            s = Server(bin_path(name), env, port, log_path=log)
            if s.wait_ready(30.0):
                return s
            s.kill9()
            tail = open(log, "rb").read()[mark:][-2000:]
            if b"Address already in use" not in tail and b"os error 98" not in tail:
                raise RuntimeError("server does not start: %r" % tail[-400:])
        raise RuntimeError("no usable port")

    def ensure(self):
        if self.a is None or not self.a.alive():
            self.a = self._start("A")
        if self.b is None or not self.b.alive():
            self.b = self._start("B")

    def stop(self):
        for s in (self.a, self.b):
            if s:
                s.kill9()


def healthy(port):
    try:
        c = Client(port, timeout=5.0)
        r = c.cmd("PING", timeout=5.0)
        c.close()
        return r == ("+", b"PONG")
    except OSError:
        return False


def run_conn_pipelined(port, stream, rng_seed, reader_mode, result):
    rng = random.Random(rng_seed)
    data = b"".join(w for _, w in stream)
    chunks, cutname = cuts(rng, data, [w for _, w in stream])
    result["cut"] = cutname
    pause = rng.choice([0, 0, 0, 0.0005, 0.003])
    try:
        c = Client(port, timeout=30.0)
    except OSError as e:
        result["err"] = "connect %r" % e
        return
    got = []
    done = threading.Event()

    def reader():
        if reader_mode == "late":
            done.wait(30.0)
            time.sleep(rng.choice([0.02, 0.1, 0.3]))
        left = len(stream)
        while left > 0:
            r = c.recv_replies(min(left, 64), timeout=20.0)
            if not r:
                break
            got.extend(r)
            left -= len(r)
            if reader_mode == "slow":
                time.sleep(0.001)

    t = threading.Thread(target=reader)
    t.start()
    try:
        for ch in chunks:
            c.send(ch)
            if pause:
                time.sleep(pause)
    except OSError as e:
        result["send_err"] = repr(e)
    # a third of the connections half-close right behind their last byte (shutdown(SHUT_WR)): the FIN may already be in the
    # server's socket when it finishes executing the last read's commands - every command still gets its reply
    if rng.random() < 0.34:
        try:
            import socket as _s
            c.s.shutdown(_s.SHUT_WR)
            result["half_closed"] = True
        except OSError:
            pass
    done.set()
    t.join(timeout=120)
    result["got"] = got
    result["garbled"] = c.garbled
    result["leftover"] = bytes(c.buf[:200])
    c.close()


def twin_replies(port, stream):
    c = Client(port, timeout=30.0)
    out = []
    for _, w in stream:
        c.send(w)
        r = c.recv_replies(1, timeout=30.0)
        if not r:
            break
        out.append(r[0])
    c.close()
    return out


def short(v, n=90):
    s = repr(v)
    return s if len(s) <= n else s[:n] + "...(%d)" % len(s)


def pipeline_leg(args, rep, prop, which):
    pair = Pair(which, args.shard, os.path.join(target_dir(), "e2e", "tcp.%s.%s.%d.%d" % (prop, which, args.shard, os.getpid())))
    ncases = args.get_int("cases", 150 if args.thorough() else 24)
    try:
        for case in range(ncases):
            rng = args.rng(case)
            pair.ensure()
            for s in (pair.a, pair.b):
                cl = Client(s.port)
                cl.cmd("FLUSHALL")
                cl.close()
            nconn = rng.choice([1, 1, 2, 4])
            shape = rng.choice(["small", "small", "medium", "deep", "bigreplies"])
            reader = rng.choice(["prompt", "prompt", "slow", "late"])
            streams = []
            for cid in range(nconn):
                if shape == "small":
                    st = gen_stream(rng, cid, rng.randrange(1, 12), False)
                elif shape == "medium":
                    st = gen_stream(rng, cid, rng.randrange(10, 60), True)
                elif shape == "deep":
                    st = gen_stream(rng, cid, rng.randrange(100, 400), False)
                else:
                    # small requests, huge replies: one big value, then a deep run of GETs of it
                    k = "c%d:big" % cid
                    v = "V%d" % cid + "Z" * rng.choice([64 * 1024, 256 * 1024, 500 * 1024])
                    st = [("SET", enc("SET", k, v))] + [("GET", enc("GET", k)) if rng.random() < 0.9 else ("STRLEN", enc("STRLEN", k)) for _ in range(rng.choice([8, 24, 64]))]
                streams.append(st)
            req_bytes = sum(len(w) for st in streams for _, w in st)
            if reader == "late" and max(sum(len(w) for _, w in st) for st in streams) > 60000:
                reader = "slow"     # a late reader with large requests is a flow-control deadlock by construction, not a server fault
            results = [dict() for _ in streams]
            ths = [threading.Thread(target=run_conn_pipelined, args=(pair.a.port, st, rng.random(), reader, results[i])) for i, st in enumerate(streams)]
            for t in ths:
                t.start()
            for t in ths:
                t.join(timeout=180)
            rep.count("cases")
            rep.count("reader:" + reader)
            rep.count("connections_half_closed_behind_the_last_byte", sum(1 for r in results if r.get("half_closed")))
            rep.count("shape:" + shape)
            a_alive = pair.a.alive()
            for cid, st in enumerate(streams):
                res = results[cid]
                rep.count("cut:" + res.get("cut", "?").rstrip("0123456789"))
                rep.distinct((shape, reader, nconn, res.get("cut"), which))
                want = twin_replies(pair.b.port, st)
                got = res.get("got", [])
                rep.d["evaluations"] += len(st)
                rep.count("commands", len(st))
                rep.count("reply_bytes_class:" + ("MB" if shape == "bigreplies" else "small"))
                wit = dict(case=case, seed=args.seed, shard=args.shard, conn=cid, nconn=nconn, shape=shape, reader=reader, cut=res.get("cut"),
                           commands=[n for n, _ in st][:60], server=which)
                if not a_alive:
                    tail = open(os.path.join(pair.logdir, "A.log"), "rb").read()[-1200:].decode("utf-8", "replace")
                    rep.violation("%s|e2e-tcp|server-process-died|%s|shape=%s" % (prop, which, shape), "server A ended (rc=%s) during the case: %s" % (pair.a.p.returncode, tail), wit)
                    break
                if len(want) != len(st):
                    rep.inconclusive("twin answered %d of %d commands" % (len(want), len(st)))
                    continue
                bad = None
                for i, (name, _) in enumerate(st):
                    if i >= len(got):
                        bad = ("missing-reply", i, name, None, want[i])
                        break
                    if norm(name, got[i]) != norm(name, want[i]):
                        kind = "out-of-order" if any(norm(name, got[i]) == norm(st[j][0], want[j]) for j in range(len(st)) if j != i) else "wrong-reply"
                        bad = (kind, i, name, got[i], want[i])
                        break
                if res.get("garbled"):
                    bad = ("undecodable-reply-stream", len(got), st[min(len(got), len(st) - 1)][0], res["garbled"], want[min(len(got), len(st) - 1)])
                if bad is None and res.get("leftover"):
                    bad = ("extra-bytes", len(st), "-", res["leftover"], None)
                if bad:
                    kind, i, name, g, w_ = bad
                    if kind == "missing-reply" and not healthy(pair.a.port):
                        rep.inconclusive("case %d: replies missing and the server does not answer a fresh PING (overloaded?)" % case)
                        continue
                    rep.violation("%s|e2e-tcp|%s|cmd=%s|reader=%s|shape=%s|%s" % (prop, kind, name, reader, shape, which),
                                  "connection %d of %d: reply %d of %d (%s): got %s, one-at-a-time twin answers %s" % (cid, nconn, i, len(st), name, short(g), short(w_)),
                                  dict(wit, index=i))
            if not a_alive:
                pair.a = None
    finally:
        pair.stop()


MALFORMED = [
    ("bad-type-byte", b"!3\r\nfoo\r\n"),
    ("bulk-len-minus2", b"*1\r\n$-2\r\n"),
    ("bulk-len-huge", b"*1\r\n$18446744073709551615\r\nx\r\n"),
    ("bulk-len-over-i64", b"*2\r\n$3\r\nGET\r\n$9223372036854775808\r\nk\r\n"),
    ("array-len-neg5", b"*-5\r\n"),
    ("array-len-nonnumeric", b"*x\r\n"),
    ("bulk-len-nonnumeric", b"*1\r\n$a\r\nPING\r\n"),
    ("lone-cr-in-header", b"*1\r\n$4\rPING\r\n"),
    ("payload-not-terminated", b"*1\r\n$4\r\nPINGxx*1\r\n$4\r\nPING\r\n"),
    ("doubled-dollar", b"*2\r\n$3\r\nGET\r\n$$1\r\na\r\n"),
    ("doubled-dollar-huge", b"*2\r\n$3\r\nGET\r\n$$18446744073709551615\r\na\r\n"),
    ("nested-deep", b"*1\r\n" * 20000 + b"$1\r\na\r\n"),
    ("empty-array-command", b"*0\r\n"),
    ("empty-command-name", b"*1\r\n$0\r\n\r\n"),
    ("null-array", b"*-1\r\n"),
    ("integer-top-level", b":5\r\n"),
    ("non-bulk-elements", b"*2\r\n:1\r\n:2\r\n"),
    # frames larger than one socket read whose fault lies behind a large, complete bulk string
    ("big-then-bad-type-byte", b"*4\r\n$3\r\nSET\r\n$1\r\nk\r\n$20000\r\n" + b"A" * 20000 + b"\r\n!zz\r\n"),
    ("big-then-bad-element", b"*4\r\n$3\r\nSET\r\n$1\r\nk\r\n$9000\r\n" + b"A" * 9000 + b"\r\n$x\r\n"),
    ("big-then-neg-len", b"*4\r\n$4\r\nMSET\r\n$1\r\nk\r\n$70000\r\n" + b"A" * 70000 + b"\r\n$-7\r\nv\r\n"),
]
# which of these must be answered by an error reply (the rest only have to leave the process alive and the connection sane or closed)
MUST_ERROR = {"bad-type-byte", "bulk-len-minus2", "array-len-neg5", "array-len-nonnumeric", "bulk-len-nonnumeric", "lone-cr-in-header",
              "bulk-len-over-i64", "big-then-bad-type-byte", "big-then-bad-element", "big-then-neg-len"}
# payload-not-terminated ($4 PING followed by two bytes that are not CR LF): Redis itself skips the two bytes unchecked, so it is
# in the corpus for liveness only


def malformed_leg(args, rep, prop, which):
    pair = Pair(which, args.shard, os.path.join(target_dir(), "e2e", "tcpm.%s.%s.%d.%d" % (prop, which, args.shard, os.getpid())))
    reps = args.get_int("rounds", 6 if args.thorough() else 2)
    try:
        for rnd in range(reps):
            for name, frame in MALFORMED:
                rng = args.rng(hash((rnd, name)) & 0xffff)
                pair.ensure()
                npre = rng.randrange(0, 4)
                pre = [("PING", enc("PING", "p%d" % i)) for i in range(npre)]
                data = b"".join(w for _, w in pre) + frame
                mode = rng.choice(["whole", "split", "bytewise"]) if len(data) < 400 else "whole"
                rep.count("cases")
                rep.count("malformed:" + name)
                rep.distinct((name, npre, mode, which))
                rep.d["evaluations"] += 1
                wit = dict(frame=name, prefix=npre, mode=mode, server=which, seed=args.seed)
                try:
                    c = Client(pair.a.port, timeout=10.0)
                    if mode == "whole":
                        c.send(data)
                    elif mode == "split":
                        p = rng.randrange(1, len(data))
                        c.send(data[:p]); time.sleep(0.002); c.send(data[p:])
                    else:
                        for i in range(len(data)):
                            c.send(data[i:i + 1])
                    got = c.recv_replies(npre + 1, timeout=3.0)
                except OSError:
                    got = []
                alive = pair.a.alive() and healthy(pair.a.port)
                if not alive:
                    time.sleep(0.2)
                    tail = open(os.path.join(pair.logdir, "A.log"), "rb").read()[-1200:].decode("utf-8", "replace")
                    rep.violation("%s|e2e-tcp|malformed|server-process-died|%s|%s" % (prop, name, which),
                                  "after frame %s (prefix %d, %s) the process is gone or does not answer a fresh PING (rc=%s): %s" % (name, npre, mode, pair.a.p.poll(), tail), wit)
                    pair.a.kill9()
                    pair.a = None
                    continue
                for i in range(min(npre, len(got))):
                    if got[i] != ("$", b"p%d" % i):
                        rep.violation("%s|e2e-tcp|malformed|earlier-reply-altered|%s|%s" % (prop, name, which), "reply %d: %s" % (i, short(got[i])), wit)
                if len(got) < npre:
                    rep.violation("%s|e2e-tcp|malformed|earlier-reply-missing|%s|%s" % (prop, name, which), "%d of %d earlier replies arrived" % (len(got), npre), wit)
                elif name in MUST_ERROR:
                    if len(got) == npre:
                        # silence so far: probe twice more on the same connection before calling it silence
                        extra = []
                        try:
                            for _ in range(2):
                                c.send(enc("PING"))
                                extra += c.recv_replies(1, timeout=2.0)
                        except OSError:
                            pass
                        if not extra and healthy(pair.a.port):
                            rep.violation("%s|e2e-tcp|malformed|silence|%s|%s" % (prop, name, which),
                                          "no reply to the malformed frame nor to two later PINGs on the same connection while the server answers other connections", wit)
                    elif got[npre][0] != "-":
                        rep.violation("%s|e2e-tcp|malformed|not-an-error-reply|%s|%s" % (prop, name, which), "got %s" % short(got[npre]), wit)
                    else:
                        # the error was answered; the connection must now either be closed or keep answering
                        after = []
                        eof = False
                        try:
                            for q in range(3):
                                c.send(enc("PING", "after%d" % q))
                                r_ = c.recv_replies(1, timeout=2.0)
                                after += r_
                                if r_:
                                    break
                            if not after:
                                c.s.settimeout(0.5)
                                try:
                                    eof = (c.s.recv(1) == b"")
                                except socket.timeout:
                                    eof = False
                        except OSError:
                            eof = True
                        rep.count("after-error:" + ("answers" if after else ("closed" if eof else "silent")))
                        if not after and not eof and healthy(pair.a.port):
                            rep.violation("%s|e2e-tcp|malformed|connection-wedged-after-error|%s|%s" % (prop, name, which),
                                          "the malformed frame was answered with an error, the connection stays open, three later PINGs on it get no reply (the server answers other connections)", wit)
                try:
                    c.close()
                except Exception:  # noqa
                    pass
    finally:
        pair.stop()


def main():
    leg = sys.argv[1]
    args = Args(sys.argv[2:])
    prop = args.extra.get("prop", "C04")
    which = args.extra.get("server", "optimized")
    rep = Report(prop, leg)
    rep.note("real binary %s (release, panic=abort, no hooks) over loopback TCP; twin = second process of the same binary" % which)
    if not os.path.exists(bin_path("redis-server-optimized")):
        build_bins()
    try:
        if leg == "pipeline":
            pipeline_leg(args, rep, prop, which)
        elif leg == "malformed":
            malformed_leg(args, rep, prop, which)
        else:
            raise SystemExit("unknown leg " + leg)
    except Exception as e:  # noqa
        import traceback
        rep.inconclusive("harness error %r %s" % (e, traceback.format_exc()[-900:]))
    if prop == "C15":
        # C15 is about the decoder being total and bounded: on the real binary that is observable as the process surviving every
        # input; what the connection answers is C04's business and is judged there
        rep.d["violations"] = [v for v in rep.d["violations"] if "server-process-died" in v["signature"]]
    if rep.d["evaluations"] == 0:
        rep.inconclusive("nothing was evaluated")
    rep.write(args.out)


if __name__ == "__main__":
    main()
