#!/bin/sh
# usage: tools/seed_ws.sh <name>  -> scratch worktree of /repo HEAD at /tmp/sw/<name>/repo, out dir /tmp/sw/<name>/out
# (for independent sub-agents writing seeded breaking changes; nothing from /verif is copied there)
set -e
N=$1
mkdir -p /tmp/sw/$N/out
git -C /repo worktree add --detach /tmp/sw/$N/repo HEAD >/dev/null 2>&1
# the repo's .cargo/config.toml names sccache/mold wrappers that are not installed; agents are told to set RUSTC_WRAPPER=
echo /tmp/sw/$N
