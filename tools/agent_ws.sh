#!/bin/sh
# usage: tools_agent_ws.sh <name>   -> creates /tmp/ag/<name>/{repo,harness} (scratch; remove with git worktree remove --force)
set -e
N=$1
mkdir -p /tmp/ag/$N
git -C /repo worktree add --detach /tmp/ag/$N/repo HEAD >/dev/null 2>&1
rsync -a --exclude target /verif/harness/ /tmp/ag/$N/harness/
sed -i "s#path = \"/repo\"#path = \"/tmp/ag/$N/repo\"#" /tmp/ag/$N/harness/Cargo.toml
sed -i "s#target-dir = \"/verif/target\"#target-dir = \"/tmp/ag/$N/target\"#" /tmp/ag/$N/harness/.cargo/config.toml
echo /tmp/ag/$N
