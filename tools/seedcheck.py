#!/usr/bin/env python3
"""Validate seeded breaking changes and run the checks against them.

usage: tools/seedcheck.py <pid> <mN> [--skip-suite] [--skip-demo] [--checks C01,C17] [--tier quick] [--slot K]
Input:  /tmp/sw/<PID>/out/<mN>/{patch.diff,demo.rs,meta.json}  (or /verif/seeded/<PID>_<mN>/)
Phase A (scratch worktree /tmp/mutv<K>, own target dir): demo passes without the patch, fails with
         it; the repo's own suite still passes with it.
Phase B (same scratch worktree, patch applied; scratch copy of the harness pointing at it):
         ./check <pid> --tier quick with VH_HARNESS/VH_TARGET, so /repo itself is never touched.
Output: /tmp/mut/results/<PID>_<mN>.json
"""
import sys, os, subprocess, json, shutil, time, re

ENV = dict(os.environ, RUSTC_WRAPPER="", CARGO_NET_OFFLINE="true", CARGO_TERM_COLOR="never")
SLOT = "0"
for _i, _a in enumerate(sys.argv):
    if _a == "--slot":
        SLOT = sys.argv[_i + 1]
WT = "/tmp/mutv" + SLOT
ENV["CARGO_TARGET_DIR"] = WT + "_rt"


def sh(cmd, cwd=None, timeout=3600):
    p = subprocess.run(cmd, cwd=cwd, env=ENV, shell=isinstance(cmd, str), stdout=subprocess.PIPE, stderr=subprocess.STDOUT, text=True, timeout=timeout)
    return p.returncode, p.stdout


def main():
    pid, mn = sys.argv[1].lower(), sys.argv[2]
    skip_suite = "--skip-suite" in sys.argv
    checks = [pid.upper()]
    tier = "quick"
    for i, a in enumerate(sys.argv):
        if a == "--checks":
            checks = sys.argv[i + 1].split(",")
        if a == "--tier":
            tier = sys.argv[i + 1]
    skip_demo = "--skip-demo" in sys.argv
    src = "/tmp/sw/%s/out/%s" % (pid.upper(), mn)
    if mn[0] in "cdefg":  # third and later rounds: /tmp/sw/<PID><letter>/out/m<k> is kept as <PID>_<letter><k>
        src = "/tmp/sw/%s%s/out/m%s" % (pid.upper(), mn[0], mn[1:])
    if mn.startswith("b"):  # second round: /tmp/sw/<PID>b/out/m<k> is kept as <PID>_b<k>
        src = "/tmp/sw/%sb/out/m%s" % (pid.upper(), mn[1:])
    if not os.path.isdir(src):
        src = "/verif/seeded/%s_%s" % (pid.upper(), mn)
    patch = os.path.join(src, "patch.diff")
    demo = os.path.join(src, "demo.rs")
    res = dict(property=pid.upper(), id="%s_%s" % (pid.upper(), mn), t=time.strftime("%H:%M:%S"))
    os.makedirs("/tmp/mut/results", exist_ok=True)
    # ---------------- phase A
    if not os.path.isdir(WT):
        sh(["git", "-C", "/repo", "worktree", "add", "--detach", WT, "HEAD"])
    sh("git checkout -q --detach $(git -C /repo rev-parse HEAD) && git checkout -- . && git clean -fdq tests/ examples/", cwd=WT)
    tname = "demo_%s_%s" % (pid, mn)
    if skip_demo:
        return phase_b(res, pid, mn, patch, checks, tier)
    shutil.copy(demo, os.path.join(WT, "tests", tname + ".rs"))
    rc0, out0 = sh("cargo test --offline -j 8 --test %s 2>&1 | tail -15" % tname, cwd=WT)
    res["demo_without_patch_passes"] = ("test result: ok" in out0)
    rc, out = sh(["git", "apply", patch], cwd=WT)
    res["patch_applies"] = rc == 0
    rc1, out1 = sh("cargo test --offline -j 8 --test %s 2>&1 | tail -25" % tname, cwd=WT)
    res["demo_with_patch_fails"] = ("test result: FAILED" in out1) or ("error: test failed" in out1)
    res["demo_with_patch_tail"] = out1[-700:]
    os.remove(os.path.join(WT, "tests", tname + ".rs"))
    if not skip_suite:
        rc2, out2 = sh("cargo nextest run --workspace --no-fail-fast --test-threads 6 --build-jobs 8 --offline 2>&1 | grep -E 'Summary|FAIL' | head -5", cwd=WT)
        res["suite"] = out2.strip()
        res["suite_passes_with_patch"] = ("691 passed" in out2) and ("FAIL" not in out2)
    sh("git checkout -- . && git clean -fdq tests/ examples/", cwd=WT)
    return phase_b(res, pid, mn, patch, checks, tier)


def phase_b(res, pid, mn, patch, checks, tier):
    # ---------------- phase B: the checks, against the scratch worktree with the patch applied
    if "demo_without_patch_passes" not in res:
        # re-check of an already confirmed change: merge into the previous result
        try:
            old = json.load(open("/tmp/mut/results/%s_%s.json" % (pid.upper(), mn)))
            old.update(res)
            res = old
        except Exception:
            pass
    sh("git checkout -- . && git clean -fdq tests/ examples/", cwd=WT)
    sh(["git", "apply", patch], cwd=WT)
    HS, TG = WT + "_h", WT + "_target"
    # the harness as committed (not the working tree, which may be in the middle of an edit)
    sh("rm -rf %s && mkdir -p %s && git -C /verif archive HEAD harness | tar -x -C %s --strip-components=1 && cp -n /repo/Cargo.lock %s/Cargo.lock; sed -i 's#path = \"/repo\"#path = \"%s\"#' %s/Cargo.toml && sed -i 's#target-dir = \"/verif/target\"#target-dir = \"%s\"#' %s/.cargo/config.toml" % (HS, HS, HS, HS, WT, HS, TG, HS))
    res.setdefault("checks", {})
    try:
        for c in checks:
            t0 = time.time()
            env2 = dict(ENV, VH_HARNESS=HS, VH_TARGET=TG)
            env2.pop("CARGO_TARGET_DIR", None)
            p = subprocess.run(["./check", c, "--tier", tier], cwd="/verif", env=env2, stdout=subprocess.PIPE, stderr=subprocess.STDOUT, text=True, timeout=5400)
            rc, out = p.returncode, p.stdout
            sigs = re.findall(r"signature: (.*)", out)
            res["checks"][c] = dict(rc=rc, caught=(rc == 1), signatures=sigs[:12], wall=round(time.time() - t0, 1),
                                    tail=[l for l in out.splitlines() if not l.startswith("KNOWN-FINDING")][-6:])
    finally:
        sh("git checkout -- . && git clean -fdq tests/ examples/", cwd=WT)
    json.dump(res, open("/tmp/mut/results/%s_%s.json" % (pid.upper(), mn), "w"), indent=1)
    print(json.dumps({k: v for k, v in res.items() if k not in ("demo_with_patch_tail",)}, indent=1)[:1800])


if __name__ == "__main__":
    main()
