#!/bin/sh
# usage: tools/coverage.sh [Cxx ...]   -> runs the quick tier of the given checks (default: all) on a coverage-instrumented
# build of harness + /repo and prints, per anchored source file, line coverage and the functions never entered.
# Output: /verif/target/covrun/cov/report.txt . Never writes evidence (scratch mode).
cd /verif
export VH_COV=1 VH_HARNESS=/verif/harness VH_TARGET=/verif/target/covrun
PROPS="$@"; [ -n "$PROPS" ] || PROPS="C01 C02 C03 C04 C05 C06 C07 C08 C09 C10 C11 C12 C13 C14 C15 C16 C17 C18 C19 C20"
for p in $PROPS; do ./check $p --tier quick > /verif/target/covrun.$p.log 2>&1; echo "$p rc=$?"; done
B=$(dirname $(rustup +nightly which rustc))/../lib/rustlib/x86_64-unknown-linux-gnu/bin
$B/llvm-profdata merge -sparse $VH_TARGET/cov/prof/*.profraw -o $VH_TARGET/cov/all.profdata
$B/llvm-cov report $VH_TARGET/cov/release/vh -instr-profile=$VH_TARGET/cov/all.profdata --ignore-filename-regex='(\.cargo|rustc|/verif/)' > $VH_TARGET/cov/report.txt 2>/dev/null
$B/llvm-cov export $VH_TARGET/cov/release/vh -instr-profile=$VH_TARGET/cov/all.profdata --ignore-filename-regex='(\.cargo|rustc|/verif/)' -format=lcov > $VH_TARGET/cov/all.lcov 2>/dev/null
echo report: $VH_TARGET/cov/report.txt
