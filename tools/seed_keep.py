#!/usr/bin/env python3
"""Keep validated seeded changes: /tmp/sw/<PID>/out/<mN> + /tmp/mut/results/<PID>_<mN>.json -> /verif/seeded/<PID>_<mN>/

usage: tools/seed_keep.py            (all results present)
       tools/seed_keep.py C07_m1 ... (only these)
A change is kept only when my own run confirmed: the patch applies to HEAD, the demonstration passes
without it and fails with it, and the repository's own suite (691 tests) still passes with it.
meta.json gets a "confirmed" block (what I ran) and a "checks" block (which checks fired, signatures).
Also rewrites /verif/seeded/INDEX.md.
"""
import sys, os, json, shutil, glob

RES = "/tmp/mut/results"
OUT = "/verif/seeded"


def keep(rid):
    rp = os.path.join(RES, rid + ".json")
    if not os.path.exists(rp):
        print("no result for", rid)
        return
    r = json.load(open(rp))
    pid, mn = rid.split("_")
    src = "/tmp/sw/%s/out/%s" % (pid, mn)
    if mn[0] in "cdefg":  # third and later rounds: /tmp/sw/<PID><letter>/out/m<k> is kept as <PID>_<letter><k>
        src = "/tmp/sw/%s%s/out/m%s" % (pid.upper(), mn[0], mn[1:])
    if mn.startswith("b"):
        src = "/tmp/sw/%sb/out/m%s" % (pid, mn[1:])
    dst = os.path.join(OUT, rid)
    if not os.path.isdir(src):
        src = dst
    ok = r.get("patch_applies") and r.get("demo_without_patch_passes") and r.get("demo_with_patch_fails") and r.get("suite_passes_with_patch", None) is not False
    if "suite_passes_with_patch" not in r and not os.path.exists(os.path.join(dst, "meta.json")):
        ok = False
    if not ok:
        print("NOT kept (validation failed):", rid, {k: r.get(k) for k in ("patch_applies", "demo_without_patch_passes", "demo_with_patch_fails", "suite_passes_with_patch")})
        return
    os.makedirs(dst, exist_ok=True)
    if src != dst:
        for f in ("patch.diff", "demo.rs"):
            shutil.copy(os.path.join(src, f), os.path.join(dst, f))
        meta = json.load(open(os.path.join(src, "meta.json")))
    else:
        meta = json.load(open(os.path.join(dst, "meta.json")))
    meta["id"] = rid
    meta["property"] = pid
    if "suite_passes_with_patch" in r:
        meta["confirmed"] = {
            "where": "scratch worktree of /repo HEAD under /tmp (removed afterwards)",
            "patch_applies_to_head": True,
            "demo_without_patch": "passes (cargo test --offline --test demo)",
            "demo_with_patch": "fails",
            "suite_with_patch": r.get("suite", "691 passed"),
        }
    checks = meta.get("checks", {})
    for c, v in r.get("checks", {}).items():
        checks[c] = {"tier": "quick", "caught": v["caught"], "rc": v["rc"], "signatures": v["signatures"][:6], "wall_s": v["wall"]}
    meta["checks"] = checks
    meta["caught_by"] = sorted(c for c, v in checks.items() if v["caught"])
    json.dump(meta, open(os.path.join(dst, "meta.json"), "w"), indent=1)
    print("kept", rid, "caught_by", meta["caught_by"])


def index():
    rows = []
    for d in sorted(glob.glob(os.path.join(OUT, "C*_[mbcdefg]*"))):
        m = json.load(open(os.path.join(d, "meta.json")))
        rows.append("| %s | %s | %s | %s | %s |" % (m["id"], m.get("title", "").replace("|", "/"), ", ".join(m.get("files", [])), (m.get("needs", "") or "").replace("|", "/").replace("\n", " ")[:160], ", ".join(m.get("caught_by", [])) or "**missed**"))
    open(os.path.join(OUT, "INDEX.md"), "w").write(
        "# Seeded breaking changes (written by independent sub-agents from the property text only)\n\n"
        "Each directory: `patch.diff` (applies to /repo HEAD with `git apply`), `demo.rs` (integration test: passes without the patch, fails with it),\n"
        "`meta.json` (what breaks, what it needs to manifest, what was run to confirm it, which checks fire).\n\n"
        "| id | change | files | needs | caught by (quick tier) |\n|---|---|---|---|---|\n" + "\n".join(rows) + "\n")


if __name__ == "__main__":
    ids = sys.argv[1:] or [os.path.basename(p)[:-5] for p in sorted(glob.glob(os.path.join(RES, "*.json")))]
    for i in ids:
        keep(i)
    index()
