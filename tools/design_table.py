#!/usr/bin/env python3
"""Regenerates the seeded-change table inside DESIGN.md (between the seeded-table markers) from seeded/*/meta.json."""
import json, glob, re
rows = []
n = caught_own = caught_any = 0
for d in sorted(glob.glob("/verif/seeded/C*_[mbcdefg]*")):
    m = json.load(open(d + "/meta.json"))
    n += 1
    cb = m.get("caught_by", [])
    caught_any += bool(cb)
    caught_own += m["property"] in cb
    sig = ""
    for c in ([m["property"]] if m["property"] in cb else cb)[:1]:
        sig = (m["checks"][c]["signatures"] or [""])[0]
    rows.append("| %s | %s | %s | `%s` |" % (m["id"], m.get("title", "").replace("|", "/").strip()[:150], ", ".join(cb) or "**none**", sig.replace("|", "¦")[:110]))
head = ("%d changes kept (all confirmed: demonstration passes without / fails with the patch, 691 tests pass with it). "
        "Caught by the quick tier of the targeted property's own check: %d; by some check: %d.\n\n"
        "| id | change (one line) | fires (quick tier) | first signature |\n|---|---|---|---|\n") % (n, caught_own, caught_any)
block = "<!-- seeded-table-begin -->\n" + head + "\n".join(rows) + "\n<!-- seeded-table-end -->"
s = open("/verif/DESIGN.md").read()
if "__TABLE__" in s:
    s = s.replace("__TABLE__", block)
else:
    s = re.sub(r"<!-- seeded-table-begin -->.*?<!-- seeded-table-end -->", lambda _: block, s, flags=re.S)
open("/verif/DESIGN.md", "w").write(s)
print(n, caught_own, caught_any)
